/-
  Property C16: decoded values never alias the source buffer; encoded bytes never alias the
  message.  Proofs for the memory model of `FinProto/Alias.lean`.  Core Lean only.
-/
import FinProto.Alias

namespace FinProto.Alias

/-! ### Basic facts about `observe`, `scribble`, `splice` -/

theorem observe_isSome_iff (m : Mem) (r : Ref) :
    (observe m r).isSome ↔ ∃ bs, m.regions[r.region]? = some bs ∧ r.off + r.len ≤ bs.length := by
  unfold observe
  cases h : m.regions[r.region]? with
  | none => simp
  | some bs => by_cases hb : r.off + r.len ≤ bs.length <;> simp [hb]

/-- Scribbling a region other than the one a reference points into is invisible through it. -/
theorem observe_scribble_ne (m : Mem) (r : Ref) (g : Nat) (f : List UInt8 → List UInt8)
    (h : r.region ≠ g) : observe (scribble m g f) r = observe m r := by
  simp [observe, scribble, List.getElem?_modify_ne _ _ (Ne.symm h)]

theorem scribble_getElem?_ne (m : Mem) (g i : Nat) (f : List UInt8 → List UInt8) (h : g ≠ i) :
    (scribble m g f).regions[i]? = m.regions[i]? := by
  simp [scribble, List.getElem?_modify_ne _ _ h]

theorem splice_length_ge (bs : List UInt8) (off : Nat) (data : List UInt8) (h : off ≤ bs.length) :
    bs.length ≤ (splice bs off data).length := by
  simp [splice]; omega

theorem splice_length_eq (bs : List UInt8) (off : Nat) (data : List UInt8)
    (h : off + data.length ≤ bs.length) : (splice bs off data).length = bs.length := by
  simp [splice]; omega

theorem observe_alloc (m : Mem) (bs : List UInt8) (r : Ref) (h : (observe m r).isSome) :
    (observe ⟨m.regions ++ [bs]⟩ r).isSome := by
  rw [observe_isSome_iff] at h ⊢
  obtain ⟨cs, hc, hl⟩ := h
  have hlt : r.region < m.regions.length := by
    rcases Nat.lt_or_ge r.region m.regions.length with h | h
    · exact h
    · simp [List.getElem?_eq_none h] at hc
  exact ⟨cs, by simp [List.getElem?_append_left hlt, hc], hl⟩

theorem observe_alloc_new (m : Mem) (bs : List UInt8) :
    observe ⟨m.regions ++ [bs]⟩ ⟨m.regions.length, 0, bs.length⟩ = some bs := by
  simp [observe]

/-- Replacing a region by one at least as long keeps every in-bounds reference in bounds. -/
theorem observe_set_isSome (m : Mem) (i : Nat) (old new : List UInt8) (r : Ref)
    (hold : m.regions[i]? = some old) (hlen : old.length ≤ new.length)
    (h : (observe m r).isSome) : (observe ⟨m.regions.set i new⟩ r).isSome := by
  rw [observe_isSome_iff] at h ⊢
  obtain ⟨cs, hc, hl⟩ := h
  by_cases hi : i = r.region
  · subst hi
    rw [hold] at hc; cases hc
    have hlt : r.region < m.regions.length := by
      rcases Nat.lt_or_ge r.region m.regions.length with h | h
      · exact h
      · simp [List.getElem?_eq_none h] at hold
    exact ⟨new, by simp [List.getElem?_set_self hlt], by omega⟩
  · exact ⟨cs, by simp [List.getElem?_set_ne hi, hc], hl⟩

/-! ### The invariant -/

/-- Invariant of a copying call, relative to the region count `n0` at entry: the buffer is an old
    region, and every local refers, in bounds, to a region allocated during the call. -/
structure Inv (n0 : Nat) (s : State) : Prop where
  buf : s.bufRegion < n0
  len : n0 ≤ s.mem.regions.length
  fresh : ∀ k r, s.env k = some r → n0 ≤ r.region
  obs : ∀ k r, s.env k = some r → (observe s.mem r).isSome

theorem Inv.of_initial {s : State} (h : s.Initial) : Inv s.mem.regions.length s :=
  ⟨h.1, Nat.le_refl _, fun k r hk => by simp [h.2 k] at hk, fun k r hk => by simp [h.2 k] at hk⟩

theorem step_bufRegion {i : Instr} {s s' : State} (h : step i s = some s') :
    s'.bufRegion = s.bufRegion := by
  cases i <;> simp only [step, Mem.alloc] at h
  all_goals (repeat' split at h) <;> simp_all [State.setVar] <;> (try subst h) <;> rfl


theorem Inv.setVar {n0 : Nat} {s : State} (h : Inv n0 s) (dst : Nat) (r : Ref)
    (hf : n0 ≤ r.region) (ho : (observe s.mem r).isSome) : Inv n0 (s.setVar dst r) := by
  refine ⟨h.buf, h.len, ?_, ?_⟩
  · intro k r' hk
    simp only [State.setVar] at hk
    split at hk
    · cases hk; exact hf
    · exact h.fresh k r' hk
  · intro k r' hk
    simp only [State.setVar] at hk ⊢
    split at hk
    · cases hk; exact ho
    · exact h.obs k r' hk

/-- Allocation keeps the invariant. -/
theorem Inv.alloc {n0 : Nat} {s : State} (h : Inv n0 s) (bs : List UInt8) :
    Inv n0 { s with mem := ⟨s.mem.regions ++ [bs]⟩ } := by
  refine ⟨h.buf, ?_, h.fresh, fun k r hk => observe_alloc _ _ _ (h.obs k r hk)⟩
  have := h.len
  simp; omega

/-- Overwriting one region by one at least as long keeps the invariant. -/
theorem Inv.set {n0 : Nat} {s : State} (h : Inv n0 s) (i : Nat) (old new : List UInt8)
    (hold : s.mem.regions[i]? = some old) (hlen : old.length ≤ new.length) (off valid : Nat) :
    Inv n0 { s with mem := ⟨s.mem.regions.set i new⟩, off := off, valid := valid } := by
  refine ⟨h.buf, ?_, h.fresh, fun k r hk => observe_set_isSome _ _ _ _ _ hold hlen (h.obs k r hk)⟩
  have := h.len
  simpa using this

/-- Every non-`view` instruction preserves the invariant. -/
theorem step_inv {n0 : Nat} {i : Instr} {s s' : State} (hs : step i s = some s')
    (hv : i.isView = false) (h : Inv n0 s) : Inv n0 s' := by
  cases i with
  | make dst n =>
      simp only [step, Mem.alloc, Option.some.injEq] at hs
      subst hs
      refine (h.alloc (List.replicate n 0)).setVar dst _ h.len ?_
      have := observe_alloc_new s.mem (List.replicate n 0)
      simp only [List.length_replicate] at this
      simp [this]
  | readFull dst =>
      simp only [step] at hs
      split at hs
      · rename_i r buf hr hbuf
        split at hs
        · rename_i tgt htgt
          split at hs
          · rename_i hc
            cases hs
            refine h.set r.region tgt _ htgt (Nat.le_of_eq (Eq.symm ?_)) _ _
            apply splice_length_eq
            simp only [List.length_take, List.length_drop]
            omega
          · cases hs
        · cases hs
      · cases hs
  | toString dst src =>
      simp only [step, Mem.alloc] at hs
      split at hs
      · rename_i r hr
        split at hs
        · rename_i bs hbs
          cases hs
          refine (h.alloc bs).setVar dst _ h.len ?_
          simp [observe_alloc_new]
        · cases hs
      · cases hs
  | sub dst src a b =>
      simp only [step] at hs
      split at hs
      · rename_i r hr
        split at hs
        · rename_i hc
          cases hs
          refine h.setVar dst _ (h.fresh src r hr) ?_
          have ho := h.obs src r hr
          rw [observe_isSome_iff] at ho ⊢
          obtain ⟨bs, hb, hl⟩ := ho
          exact ⟨bs, hb, by simp only; omega⟩
        · cases hs
      · cases hs
  | view dst n => simp [Instr.isView] at hv
  | unsafeString dst src =>
      simp only [step] at hs
      split at hs
      · rename_i r hr
        cases hs
        exact h.setVar dst r (h.fresh src r hr) (h.obs src r hr)
      · cases hs
  | write src =>
      simp only [step] at hs
      split at hs
      · rename_i r buf hr hbuf
        split at hs
        · rename_i data hdata
          split at hs
          · rename_i hc
            cases hs
            exact h.set s.bufRegion buf _ hbuf (splice_length_ge _ _ _ hc) _ _
          · cases hs
        · cases hs
      · cases hs
  | ret src => simp [step] at hs

/-- Invariant + result of a copying run. -/
theorem run_inv {n0 : Nat} : ∀ {prog : Prog} {s s' : State} {r : Ref},
    run prog s = some (r, s') → prog.copying = true → Inv n0 s →
    Inv n0 s' ∧ s'.bufRegion = s.bufRegion ∧ n0 ≤ r.region ∧ (observe s'.mem r).isSome := by
  intro prog
  induction prog with
  | nil => intro s s' r h; simp [run] at h
  | cons i rest ih =>
      intro s s' r h hc hinv
      have hc' : i.isView = false ∧ Prog.copying rest = true := by
        simpa [Prog.copying] using hc
      by_cases hret : ∃ src, i = .ret src
      · obtain ⟨src, rfl⟩ := hret
        simp only [run, Option.map_eq_some_iff, Prod.mk.injEq] at h
        obtain ⟨r0, hr0, rfl, rfl⟩ := h
        exact ⟨hinv, rfl, hinv.fresh src _ hr0, hinv.obs src _ hr0⟩
      · have hrun : run (i :: rest) s = (step i s).bind (run rest) := by
          cases i <;> first | rfl | exact absurd ⟨_, rfl⟩ hret
        rw [hrun] at h
        cases hst : step i s with
        | none => simp [hst] at h
        | some s1 =>
            simp only [hst, Option.bind_some] at h
            obtain ⟨hi, hb, hf, ho⟩ := ih h hc'.2 (step_inv hst hc'.1 hinv)
            exact ⟨hi, by rw [hb, step_bufRegion hst], hf, ho⟩

/-! ### Theorem 1: the returned reference never points into the buffer -/

/-- General form: relative to any `n0` with the invariant at entry. -/
theorem noalias_return_inv {n0 : Nat} {prog : Prog} {s s' : State} {r : Ref}
    (hc : prog.copying = true) (hinv : Inv n0 s) (hrun : run prog s = some (r, s')) :
    n0 ≤ r.region ∧ r.region ≠ s.bufRegion := by
  obtain ⟨_, _, hf, _⟩ := run_inv hrun hc hinv
  have := hinv.buf
  exact ⟨hf, by omega⟩

/-- **C16, decode side (1).**  A program without `view`, started in an initial state, returns a
    reference into a region allocated during the call (fresh), never into the buffer. -/
theorem noalias_return {prog : Prog} {s s' : State} {r : Ref}
    (hc : prog.copying = true) (hs : s.Initial) (hrun : run prog s = some (r, s')) :
    s.mem.regions.length ≤ r.region ∧ r.region ≠ s.bufRegion :=
  noalias_return_inv hc (Inv.of_initial hs) hrun

/-- The returned reference is in bounds: its observation exists (so `decode_immune` below is not
    an equation `none = none`). -/
theorem return_observable {prog : Prog} {s s' : State} {r : Ref}
    (hc : prog.copying = true) (hs : s.Initial) (hrun : run prog s = some (r, s')) :
    ∃ bs, observe s'.mem r = some bs := by
  obtain ⟨_, _, _, ho⟩ := run_inv hrun hc (Inv.of_initial hs)
  exact Option.isSome_iff_exists.mp ho

/-! ### Theorem 2: decoded values are immune to later mutation of the buffer -/

/-- **C16, decode side (2).**  Whatever is later done to the buffer's backing array (overwrite,
    Reset and reuse, spare capacity included: any `f`), the returned value does not change. -/
theorem decode_immune {prog : Prog} {s s' : State} {r : Ref}
    (hc : prog.copying = true) (hs : s.Initial) (hrun : run prog s = some (r, s'))
    (f : List UInt8 → List UInt8) :
    observe (scribble s'.mem s.bufRegion f) r = observe s'.mem r :=
  observe_scribble_ne _ _ _ _ (noalias_return hc hs hrun).2

/-- Same, phrased with the final state's buffer id (it never changes). -/
theorem decode_immune' {prog : Prog} {s s' : State} {r : Ref}
    (hc : prog.copying = true) (hs : s.Initial) (hrun : run prog s = some (r, s'))
    (f : List UInt8 → List UInt8) :
    observe (scribble s'.mem s'.bufRegion f) r = observe s'.mem r := by
  obtain ⟨_, hb, _, _⟩ := run_inv hrun hc (Inv.of_initial hs)
  rw [hb]; exact decode_immune hc hs hrun f

/-! ### Theorem 3: the model CAN exhibit the failure (`view` aliases) -/

/-- `return buf.Next(n)` returns a reference into the buffer's own backing array. -/
theorem view_returns_buffer {n : Nat} {s s' : State} {r : Ref}
    (h : run (progViewString n) s = some (r, s')) :
    r = ⟨s.bufRegion, s.off, n⟩ ∧ s'.mem = s.mem := by
  simp only [progViewString, run, step] at h
  split at h
  · split at h
    · simp [State.setVar] at h
      obtain ⟨rfl, rfl⟩ := h
      exact ⟨rfl, rfl⟩
    · simp at h
  · simp at h

/-- **Negation of C16 for the zero-copy variant** (general form): on ANY buffer with at least
    `n > 0` unread bytes, `[view 0 n, ret 0]` succeeds and there is a later mutation of the buffer
    that changes what the returned value shows. -/
theorem view_aliases (s : State) (n : Nat) (hn : 0 < n) (buf : List UInt8)
    (hb : s.mem.regions[s.bufRegion]? = some buf)
    (h1 : s.off + n ≤ s.valid) (h2 : s.valid ≤ buf.length) :
    ∃ r s' f, run [.view 0 n, .ret 0] s = some (r, s') ∧
      observe (scribble s'.mem s.bufRegion f) r ≠ observe s'.mem r := by
  refine ⟨⟨s.bufRegion, s.off, n⟩, { s with off := s.off + n }.setVar 0 ⟨s.bufRegion, s.off, n⟩,
    fun _ => [], ?_, ?_⟩
  · simp [run, step, hb, h1, h2, State.setVar]
  · have hlt : s.off + n ≤ buf.length := by omega
    have hne : ¬ (s.off + n ≤ 0) := by omega
    simp [observe, scribble, State.setVar, hb, hlt, hne]

/-- Non-vacuity of `view_aliases`: its hypotheses hold on a 5-byte buffer with n = 3. -/
example : ∃ r s' f, run [.view 0 3, .ret 0] (State.ofBuffer [97, 98, 99, 100, 101]) = some (r, s') ∧
    observe (scribble s'.mem 0 f) r ≠ observe s'.mem r :=
  view_aliases (State.ofBuffer [97, 98, 99, 100, 101]) 3 (by decide) [97, 98, 99, 100, 101] rfl
    (by decide) (by decide)

/-- Concrete instance, by evaluation: the caller got "abc"; the buffer is reused; the caller's
    value now reads "XYZ". -/
theorem view_aliases_concrete :
    (run [.view 0 3, .ret 0] (State.ofBuffer [97, 98, 99, 100, 101])).map
        (fun p => (p.1, observe p.2.mem p.1,
          observe (scribble p.2.mem 0 (fun _ => [88, 89, 90, 0, 0])) p.1))
      = some (⟨0, 0, 3⟩, some [97, 98, 99], some [88, 89, 90]) := by
  decide

/-! ### Theorem 5: the Go primitives are copying programs -/

theorem progReadString_copying (len : Nat) : (progReadString len).copying = true := rfl

theorem progReadFixedStringTrimPadding_copying (n a b : Nat) :
    (progReadFixedStringTrimPadding n a b).copying = true := rfl

theorem progReadBasicType_copying (w : Nat) : (progReadBasicType w).copying = true := rfl

/-- Concrete instances, by `decide` (this is the check `bin/check` runs on the extractor's output). -/
example : (progReadString 5).copying = true := by decide
example : (progReadFixedStringTrimPadding 8 0 6).copying = true := by decide
example : (progReadBasicType 4).copying = true := by decide

/-- ... and the forbidden zero-copy variant is not. -/
theorem progViewString_not_copying (n : Nat) : (progViewString n).copying = false := rfl

theorem ofBuffer_initial (buf : List UInt8) (others : List (List UInt8)) :
    (State.ofBuffer buf others).Initial :=
  ⟨by simp [State.ofBuffer], fun _ => rfl⟩

/-- The 5-byte buffer "hello". -/
def exHello : State := State.ofBuffer [104, 101, 108, 108, 111]

/-- ReadString on "hello": succeeds, returns a reference to region 2 (region 0 is the buffer,
    region 1 the `make`d scratch slice), showing "hello". -/
theorem readString_hello_runs :
    (run (progReadString 5) exHello).map (fun p => (p.1, observe p.2.mem p.1))
      = some (⟨2, 0, 5⟩, some [104, 101, 108, 108, 111]) := by
  decide

/-- Non-vacuity of theorems 1 and 2 + their instantiation on ReadString/"hello". -/
example : ∃ r s', run (progReadString 5) exHello = some (r, s') := by
  cases h : run (progReadString 5) exHello with
  | none => have := readString_hello_runs; simp [h] at this
  | some p => exact ⟨p.1, p.2, rfl⟩

example {r : Ref} {s' : State} (h : run (progReadString 5) exHello = some (r, s')) :
    exHello.mem.regions.length ≤ r.region ∧ r.region ≠ exHello.bufRegion :=
  noalias_return (progReadString_copying 5) (ofBuffer_initial _ _) h

/-- Whatever is later done to the buffer, the decoded string still reads "hello". -/
theorem readString_hello_immune (f : List UInt8 → List UInt8) :
    (run (progReadString 5) exHello).map
        (fun p => observe (scribble p.2.mem exHello.bufRegion f) p.1)
      = some (some [104, 101, 108, 108, 111]) := by
  have hr := readString_hello_runs
  cases h : run (progReadString 5) exHello with
  | none => simp [h] at hr
  | some p =>
      obtain ⟨r, s'⟩ := p
      simp only [h, Option.map_some, Option.some.injEq, Prod.mk.injEq] at hr
      simp only [Option.map_some]
      rw [decode_immune (progReadString_copying 5) (show exHello.Initial from ofBuffer_initial _ _) h f,
        hr.2]

/-- Same for ReadFixedStringTrimPadding on "hi   " (n = 5, trimmed to [0:2]) and ReadBasicType. -/
example : (run (progReadFixedStringTrimPadding 5 0 2) (State.ofBuffer [104, 105, 32, 32, 32])).map
      (fun p => (p.1, observe p.2.mem p.1)) = some (⟨2, 0, 2⟩, some [104, 105]) := by
  decide

example : (run (progReadBasicType 4) (State.ofBuffer [1, 2, 3, 4, 5])).map
      (fun p => (p.1, observe p.2.mem p.1, p.2.off)) = some (⟨1, 0, 4⟩, some [1, 2, 3, 4], 4) := by
  decide

/-! ### Theorem 4: encode side -/

/-- The bytes a `write` instruction copies, as seen in memory `m` through environment `env`. -/
def srcData (m : Mem) (env : Nat → Option Ref) : Instr → List UInt8
  | .write src => ((env src).bind (observe m)).getD []
  | _ => []

/-- What a successful `write` does. -/
theorem step_write {src : Nat} {s s' : State} (h : step (.write src) s = some s') :
    ∃ r buf data, s.env src = some r ∧ s.mem.regions[s.bufRegion]? = some buf ∧
      observe s.mem r = some data ∧ s.valid ≤ buf.length ∧
      s' = { s with mem := ⟨s.mem.regions.set s.bufRegion (splice buf s.valid data)⟩
                    valid := s.valid + data.length } := by
  simp only [step] at h
  split at h
  · rename_i r buf hr hbuf
    split at h
    · rename_i data hdata
      split at h
      · rename_i hc
        exact ⟨r, buf, data, hr, hbuf, hdata, hc, by cases h; rfl⟩
      · cases h
    · cases h
  · cases h

theorem take_splice (buf : List UInt8) (v : Nat) (data : List UInt8) (h : v ≤ buf.length) :
    (splice buf v data).take (v + data.length) = buf.take v ++ data := by
  have h1 : (buf.take v ++ data).length = v + data.length := by
    simp [Nat.min_eq_left h]
  unfold splice
  rw [← h1, List.take_left]

theorem observe_set_ne (m : Mem) (i : Nat) (new : List UInt8) (r : Ref) (h : r.region ≠ i) :
    observe ⟨m.regions.set i new⟩ r = observe m r := by
  simp [observe, List.getElem?_set_ne (Ne.symm h)]

/-- Functional content of a sequence of `write`s of references that do not point into the buffer
    itself: the buffer afterwards holds its old valid bytes followed by the bytes each source showed
    AT THE TIME OF THE CALL (a copy - values, not references). -/
theorem exec_writes_contents : ∀ {prog : Prog} {s s' : State},
    prog.writesOnly = true → exec prog s = some s' →
    (∀ k r, s.env k = some r → r.region ≠ s.bufRegion) →
    s'.bufRegion = s.bufRegion ∧ s'.env = s.env ∧
    State.bufBytes s'.mem s' = State.bufBytes s.mem s ++ prog.flatMap (srcData s.mem s.env) := by
  intro prog
  induction prog with
  | nil => intro s s' _ h _; simp [exec] at h; subst h; simp
  | cons i rest ih =>
      intro s s' hw h henv
      have hw' : i.isWrite = true ∧ Prog.writesOnly rest = true := by
        simpa [Prog.writesOnly] using hw
      cases i with
      | write src =>
          simp only [exec] at h
          cases hst : step (.write src) s with
          | none => simp [hst] at h
          | some s1 =>
              simp only [hst, Option.bind_some] at h
              obtain ⟨r, buf, data, hr, hbuf, hdata, hc, rfl⟩ := step_write hst
              have hlt : s.bufRegion < s.mem.regions.length := by
                rcases Nat.lt_or_ge s.bufRegion s.mem.regions.length with h | h
                · exact h
                · simp [List.getElem?_eq_none h] at hbuf
              obtain ⟨hb, he, hbytes⟩ := ih hw'.2 h henv
              refine ⟨hb, he, ?_⟩
              rw [hbytes]
              have h1 : State.bufBytes
                  (⟨s.mem.regions.set s.bufRegion (splice buf s.valid data)⟩ : Mem)
                  { s with mem := ⟨s.mem.regions.set s.bufRegion (splice buf s.valid data)⟩
                           valid := s.valid + data.length }
                  = State.bufBytes s.mem s ++ data := by
                simp [State.bufBytes, List.getElem?_set_self hlt, hbuf, take_splice _ _ _ hc]
              have h2 : ∀ j : Instr,
                  srcData (⟨s.mem.regions.set s.bufRegion (splice buf s.valid data)⟩ : Mem) s.env j
                    = srcData s.mem s.env j := by
                intro j
                cases j <;> simp only [srcData]
                rename_i k
                cases hk : s.env k with
                | none => rfl
                | some rk => simp [observe_set_ne _ _ _ _ (henv k rk hk)]
              have h2' := funext h2
              rw [h1, h2']
              simp [List.flatMap_cons, srcData, hr, hdata, List.append_assoc]
      | _ => simp [Instr.isWrite] at hw'

/-- **C16, encode side.**  After a sequence of `write`s, mutating any region other than the
    buffer's (i.e. the message's memory: `g ≠ bufRegion`, any `f`) leaves the buffer's contents
    unchanged. -/
theorem encode_immune {prog : Prog} {s s' : State}
    (hw : prog.writesOnly = true) (hx : exec prog s = some s')
    (g : Nat) (hg : g ≠ s.bufRegion) (f : List UInt8 → List UInt8) :
    State.bufBytes (scribble s'.mem g f) s' = State.bufBytes s'.mem s' := by
  have hb : s'.bufRegion = s.bufRegion := by
    clear hg
    induction prog generalizing s with
    | nil => simp [exec] at hx; subst hx; rfl
    | cons i rest ih =>
        simp only [exec] at hx
        cases hst : step i s with
        | none => simp [hst] at hx
        | some s1 =>
            simp only [hst, Option.bind_some] at hx
            have hw' : i.isWrite = true ∧ Prog.writesOnly rest = true := by
              simpa [Prog.writesOnly] using hw
            rw [ih hw'.2 hx, step_bufRegion hst]
  simp [State.bufBytes, scribble_getElem?_ne _ _ _ _ (hb ▸ hg)]

/-- Encode side, full strength: after the writes AND any later mutation of the message's memory,
    the buffer still holds exactly the bytes the message had when it was written. -/
theorem encode_immune_contents {prog : Prog} {s s' : State}
    (hw : prog.writesOnly = true) (hx : exec prog s = some s')
    (henv : ∀ k r, s.env k = some r → r.region ≠ s.bufRegion)
    (g : Nat) (hg : g ≠ s.bufRegion) (f : List UInt8 → List UInt8) :
    State.bufBytes (scribble s'.mem g f) s'
      = State.bufBytes s.mem s ++ prog.flatMap (srcData s.mem s.env) := by
  rw [encode_immune hw hx g hg f]
  exact (exec_writes_contents hw hx henv).2.2

/-- Non-vacuity (encode side): buffer "ab" (region 0), message regions "hello" (1) and "xyz" (2);
    write message[1:4] = "ell" then "xyz"; afterwards wipe region 1: the buffer still reads
    "abellxyz". -/
def exEnc : State :=
  { State.ofBuffer [97, 98] [[104, 101, 108, 108, 111], [120, 121, 122]] with
    env := fun k => if k = 0 then some ⟨1, 1, 3⟩ else if k = 1 then some ⟨2, 0, 3⟩ else none }

example : (exec [.write 0, .write 1] exEnc).map
      (fun s' => State.bufBytes (scribble s'.mem 1 (fun _ => [])) s')
    = some [97, 98, 101, 108, 108, 120, 121, 122] := by
  decide

example : (exec [.write 0, .write 1] exEnc).isSome = true := by decide

/-- Instantiation of `encode_immune` on that program (hypotheses satisfiable: previous example). -/
example {s' : State} (h : exec [.write 0, .write 1] exEnc = some s') (f : List UInt8 → List UInt8) :
    State.bufBytes (scribble s'.mem 1 f) s' = State.bufBytes s'.mem s' :=
  encode_immune (by decide) h 1 (by decide) f

example : ∀ k r, exEnc.env k = some r → r.region ≠ exEnc.bufRegion := by
  intro k r h
  simp only [exEnc, State.ofBuffer] at h ⊢
  split at h
  · cases h; decide
  · split at h
    · cases h; decide
    · cases h

end FinProto.Alias
