/-
  The GoIR tie, assembled: for every statement kind of the schema language that names a codec primitive, the Go function
  it names — as translated statement by statement from codec/binary_codec.go (`PinnedIR`, and, when `Obl.ir_repo` holds,
  the current sources) and run by GoIR's semantics — does exactly what the schema interpreter's leaf (`encOp` / `decOp`,
  the functions every property theorem is about) says.  The hand-written primitive model is thereby no longer only
  validated by the differential run: it is proved against a syntax-directed translation of the source.
-/
import FinProto.GoIRSpec
import FinProto.Props.GoIR_A
import FinProto.Props.GoIR_B
import FinProto.Props.GoIR_C
import FinProto.Props.GoIR_E
namespace FinProto.GoIR
open FinProto

/-- the domain the theorems speak about: prefix types are Go's unsigned integer types (at most 8 bytes) and lengths are
    Go `int`s (below 2^63) -/
def opOK : Op → Val → Prop
  | .vstr pw _, .str s => pw ≤ 8 ∧ s.length < 2 ^ 63
  | .nums cw _ _, .nums l => cw ≤ 8 ∧ l.length < 2 ^ 63
  | .fixeds cw _ _ _ _, .strs l => cw ≤ 8 ∧ l.length < 2 ^ 63
  | .vstrs cw pw _, .strs l => cw ≤ 8 ∧ pw ≤ 8 ∧ l.length < 2 ^ 63 ∧ ∀ s ∈ l, s.length < 2 ^ 63
  | .objs cw _ _, .msgs l => cw ≤ 8 ∧ l.length < 2 ^ 63
  | _, _ => True

theorem wspecE_emit {r : CallRes O} {buf : Bytes} {o : Outcome Bytes} (v : α) (h : WSpec r buf o) :
    WSpecE r (emit v o buf) := by
  cases o <;> simpa [WSpec, WSpecE, emit] using h

theorem wspec_ok {r : CallRes O} {buf bs : Bytes} (h : r = .ret [.err false] (buf ++ bs)) : WSpec r buf (.ok bs) := h

/-- ENCODER LEAVES.  The call that an encoder statement of kind `op` makes on a field value `v` (the variant with explicit
    padding arguments), executed on the translated source, appends exactly what `encOp` appends, fails exactly when it
    fails, and panics exactly when it panics. -/
theorem encOp_ir (env : Env) (encTy : Nat → Val → E Val) (zero : Nat → Val) (all : List Val) (ext : Ext Val)
    (op : Op) (v : Val) (c : Nat × List Ty × List (V Val)) (hc : opWriter false op v = some c) (hok : opOK op v)
    (hext : ∀ cw ty e, op = .objs cw ty e → ∀ o b, ext.enc o b = (encTy ty o b).map (·.2))
    (buf : Bytes) (lf k : Nat) (hk : 4 ≤ k) :
    WSpecE (runFn ext prog lf k c.1 c.2.1 c.2.2 buf) (encOp env encTy zero all op v buf) := by
  cases op <;> cases v <;> simp only [opWriter, Option.some.injEq, reduceCtorEq, Bool.false_eq_true, if_false] at hc
  case scalar.num w e n =>
    subst hc
    exact wspecE_emit _ (wspec_ok (ir_writeScalar ext e w n buf lf k (by omega)))
  case fixed.str n pad left s =>
    subst hc
    exact wspecE_emit _ (wspec_ok (ir_writeFixed ext s n pad left buf lf k (by omega)))
  case vstr.str pw e s =>
    subst hc
    exact wspecE_emit _ (ir_writeVstr ext e pw s hok.1 hok.2 buf lf k (by omega))
  case nums.nums cw w e l =>
    subst hc
    exact wspecE_emit _ (ir_writeNums ext e cw w l hok.1 hok.2 buf lf k (by omega))
  case fixeds.strs cw n pad left e l =>
    subst hc
    exact wspecE_emit _ (ir_writeFixeds ext e cw n pad left l hok.1 hok.2 buf lf k (by omega))
  case vstrs.strs cw pw e l =>
    subst hc
    exact wspecE_emit _ (ir_writeVstrs ext e cw pw l hok.1 hok.2.1 hok.2.2.1 hok.2.2.2 buf lf k (by omega))
  case objs.msgs cw ty e l =>
    subst hc
    have h := ir_writeObjs ext (encTy ty) (hext cw ty e rfl) e cw (.u 0) l hok.1 hok.2 buf lf k (by omega)
    simp only [encOp]
    -- `mapE Val.msgs` changes the returned value only, not the buffer
    revert h
    simp only [bindE, mapE]
    cases hw : emit () (writeLen cw e l.length) buf with
    | ok p =>
      simp only [Outcome.bind_ok]
      cases encAll (encTy ty) l p.2 <;> simp [WSpecE]
    | err => simp [WSpecE]
    | panic => simp [WSpecE]

/-- the variants without padding arguments (`WriteFixedString`, `WriteFixedStringList[LE]`) are the general ones at pad ' '
    on the right -/
theorem encOp_ir_default (env : Env) (encTy : Nat → Val → E Val) (zero : Nat → Val) (all : List Val) (ext : Ext Val)
    (op : Op) (v : Val) (c : Nat × List Ty × List (V Val)) (hc : opWriter true op v = some c) (hok : opOK op v)
    (hd : (∃ n, op = .fixed n 32 false) ∨ (∃ cw n e, op = .fixeds cw n 32 false e))
    (buf : Bytes) (lf k : Nat) (hk : 4 ≤ k) :
    WSpecE (runFn ext prog lf k c.1 c.2.1 c.2.2 buf) (encOp env encTy zero all op v buf) := by
  rcases hd with ⟨n, rfl⟩ | ⟨cw, n, e, rfl⟩ <;> cases v <;>
    simp only [opWriter, Option.some.injEq, reduceCtorEq, if_true] at hc
  · subst hc
    exact wspecE_emit _ (wspec_ok (ir_writeFixedDef ext _ n buf lf k (by omega)))
  · subst hc
    exact wspecE_emit _ (ir_writeFixedsDef ext e cw n _ hok.1 hok.2 buf lf k (by omega))

/-- the checksum a frame stores: the `Calc` body of the service, executed on the translated source, computes `cksNat`
    (whose published definitions are proved in ChecksumProofs.lean) and leaves the buffer as it was -/
theorem cks_ir (ext : Ext O) (a : Alg) (f : Nat)
    (hf : (a = .crc16 ∧ f = ixCrc16) ∨ (a = .crc32 ∧ f = ixCrc32) ∨ (a = .sse ∧ f = ixSse) ∨ (a = .szse ∧ f = ixSzse))
    (bs : Bytes) (lf k : Nat) (hlf : 9 ≤ lf) (hk : 1 ≤ k) :
    runFn ext prog lf k f [] [] bs = .ret [.int (Int.ofNat (cksNat a bs))] bs := by
  rcases hf with ⟨rfl, rfl⟩ | ⟨rfl, rfl⟩ | ⟨rfl, rfl⟩ | ⟨rfl, rfl⟩
  · exact ir_crc16 ext bs lf k hlf hk
  · exact ir_crc32 ext bs lf k hk
  · exact ir_sse ext bs lf k hk
  · exact ir_szse ext bs lf k hk

/-- non-vacuity: the BSE-style little-endian list `[0x0102, 3]` behind a 16-bit count, through the translated
    `WriteBasicTypeListLE`, and back through `ReadBasicTypeListLE` -/
example : wspecB (runFn noExt prog 100 callDepth (ixWNums .le) [.u 2, .u 2] [natsV [0x0102, 3]] [0xAA]) [0xAA]
    (.ok [2, 0, 2, 1, 3, 0]) = true := by decide +kernel
example : opOK (.nums 2 2 .le) (.nums [0x0102, 3]) := by simp [opOK]

/-! ### sensitivity: what the theorems exclude

  The defect repaired in `/repo` commit `aef9d6d` (`WriteBasicTypeListLE` wrote its ELEMENTS through the big-endian helper)
  is, in GoIR, the body of function 6 with the element call going to function 0 instead of 1.  That program does not
  satisfy `ir_writeNums`'s conclusion: on `[0x0102]` it emits `01 00 01 02` where the model (and the property) say
  `01 00 02 01`.  So the theorems distinguish the repaired code from the defective one. -/

def fn6Defect : Func := { name := "WriteBasicTypeListLE", nparams := 1, body :=
 (.seq (.seq (.call 4 [(.param 0)] [(.order .le), (.len (.var 0))] [(some 1)])
 (.ite (.cmp .ne (.var 1) .nilErr)
 (.ret [(.var 1)])
 .skip))
 (.seq (.range 2 (.var 0)
 (.seq (.call 0 [(.param 1)] [(.var 2)] [(some 3)])
 (.ite (.cmp .ne (.var 3) .nilErr)
 (.ret [(.var 3)])
 .skip)))
 (.ret [.nilErr]))) }

example : wspecB (runFn noExt (prog.set 6 fn6Defect) 100 callDepth (ixWNums .le) [.u 2, .u 2] [natsV [0x0102]] [])
    [] (writeNums 2 2 .le [0x0102]) = false := by decide +kernel
example : wspecB (runFn noExt (prog.set 6 fn6Defect) 100 callDepth (ixWNums .le) [.u 2, .u 2] [natsV [0x0102]] [])
    [] (.ok [1, 0, 1, 2]) = true := by decide +kernel
example : writeNums 2 2 .le [0x0102] = .ok [1, 0, 2, 1] := by decide +kernel
/-- … and the regenerated-equals-committed obligation fails for it -/
example : (prog.set 6 fn6Defect == prog) = false := by decide +kernel

end FinProto.GoIR
