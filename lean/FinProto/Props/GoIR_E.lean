/-
  GoIR proofs, group E: the `Calc` bodies of the four checksum services compute the model's checksum functions
  (whose published definitions are proved in ChecksumProofs.lean) and leave the buffer as it was.
-/
import FinProto.GoIRSpec
namespace FinProto.GoIR
open FinProto

/-! ### the functions, and `exec` one constructor at a time (so that loop bodies stay folded) -/

private theorem prog_34 : prog[34]? = some PinnedIR.fn34 := rfl
private theorem prog_35 : prog[35]? = some PinnedIR.fn35 := rfl
private theorem prog_36 : prog[36]? = some PinnedIR.fn36 := rfl
private theorem prog_37 : prog[37]? = some PinnedIR.fn37 := rfl

private theorem exec_seq (ext : Ext O) (callee) (lf : Nat) (targs) (a b : Stmt) (s : St O) :
    exec ext callee lf targs (.seq a b) s =
      match exec ext callee lf targs a s with
      | .norm s1 => exec ext callee lf targs b s1
      | r => r := by simp only [exec]; rfl
private theorem exec_set (ext : Ext O) (callee) (lf : Nat) (targs) (x e) (s : St O) :
    exec ext callee lf targs (.set x e) s =
      match evalE targs s e with
      | some v => .norm (s.set x v)
      | none => .panic := by simp only [exec]; rfl
private theorem exec_range (ext : Ext O) (callee) (lf : Nat) (targs) (x e body) (s : St O) :
    exec ext callee lf targs (.range x e body) s =
      match (evalE targs s e).bind elems with
      | some vs => rangeLoop x (exec ext callee lf targs body) vs s
      | none => .panic := by simp only [exec]; rfl
private theorem exec_ret (ext : Ext O) (callee) (lf : Nat) (targs) (es) (s : St O) :
    exec ext callee lf targs (.ret es) s =
      match evalArgs targs s es with
      | some vs => .ret vs s
      | none => .panic := by simp only [exec]; rfl
private theorem exec_ite (ext : Ext O) (callee) (lf : Nat) (targs) (c t e) (s : St O) :
    exec ext callee lf targs (.ite c t e) s =
      match evalE targs s c with
      | some (.bool true) => exec ext callee lf targs t s
      | some (.bool false) => exec ext callee lf targs e s
      | _ => .panic := by simp only [exec]; rfl
private theorem exec_while (ext : Ext O) (callee) (lf : Nat) (targs) (c post body) (s : St O) :
    exec ext callee lf targs (.while c post body) s =
      whileLoop (fun s => evalE targs s c) (exec ext callee lf targs body) (exec ext callee lf targs post) lf s := by
  simp only [exec]

/-- a `range` over bytes whose body updates slot 0 by `f` (read through `enc`) folds `f` over the bytes -/
private theorem rangeLoop_fold {α : Type} (body : St O → Res O) (f : α → UInt8 → α) (enc : α → Int)
    (hbody : ∀ (s : St O) (a : α) (b : UInt8), s.loc 0 = .int (enc a) → s.loc 1 = .int (b.toNat : Int) →
      ∃ s', body s = .norm s' ∧ s'.buf = s.buf ∧ s'.loc 0 = .int (enc (f a b)))
    (bs : Bytes) : ∀ (s : St O) (a : α), s.loc 0 = .int (enc a) →
      ∃ s', rangeLoop 1 body (bs.map (fun b => V.int b.toNat)) s = .norm s' ∧ s'.buf = s.buf ∧
        s'.loc 0 = .int (enc (bs.foldl f a)) := by
  induction bs with
  | nil => intro s a h; exact ⟨s, rfl, rfl, h⟩
  | cons b bs ih =>
    intro s a h
    obtain ⟨s1, h1, h2, h3⟩ := hbody (s.set 1 (.int (b.toNat : Int))) a b (by simpa using h) (by simp)
    obtain ⟨s2, g1, g2, g3⟩ := ih s1 (f a b) h3
    refine ⟨s2, ?_, ?_, ?_⟩
    · simp only [List.map_cons, rangeLoop, h1, g1]
    · rw [g2, h2]; rfl
    · simpa using g3

/-! ### CRC-16 -/

private theorem wrap_u2 (n : Nat) : (Ty.u 2).wrap (n : Int) = ((n % 65536 : Nat) : Int) := by
  have h : (256 ^ 2 : Nat) = 65536 := by decide
  simp only [Ty.wrap, h]; omega

private theorem aop_band1 (a : Nat) : aop .band (a : Int) 1 = some ((a &&& 1 : Nat) : Int) := by
  have h : (0 : Int) ≤ (a : Int) ∧ (0 : Int) ≤ 1 := ⟨Int.natCast_nonneg a, by decide⟩
  simp only [aop, if_pos h, Int.toNat_natCast]; rfl
private theorem aop_shr1 (a : Nat) : aop .shr (a : Int) 1 = some ((a >>> 1 : Nat) : Int) := by
  have h : (0 : Int) ≤ (a : Int) ∧ (0 : Int) ≤ 1 := ⟨Int.natCast_nonneg a, by decide⟩
  simp only [aop, if_pos h, Int.toNat_natCast]; rfl
private theorem aop_bxorA (a : Nat) : aop .bxor (a : Int) 40961 = some ((a ^^^ 40961 : Nat) : Int) := by
  have h : (0 : Int) ≤ (a : Int) ∧ (0 : Int) ≤ 40961 := ⟨Int.natCast_nonneg a, by decide⟩
  simp only [aop, if_pos h, Int.toNat_natCast]; rfl
private theorem aop_bxor (a b : Nat) : aop .bxor (a : Int) (b : Int) = some ((a ^^^ b : Nat) : Int) := by
  have h : (0 : Int) ≤ (a : Int) ∧ (0 : Int) ≤ (b : Int) := ⟨Int.natCast_nonneg a, Int.natCast_nonneg b⟩
  simp only [aop, if_pos h, Int.toNat_natCast]
private theorem cop_ne0 (n : Nat) : cop .ne (n : Int) 0 = decide (n ≠ 0) := by
  simp only [cop]; congr 1; apply propext; omega

private theorem crc16Bit_toNat (c : UInt16) :
    (crc16Bit c).toNat =
      if (c.toNat &&& 1) % 65536 ≠ 0 then ((c.toNat >>> 1) % 65536 ^^^ 40961) % 65536 else (c.toNat >>> 1) % 65536 := by
  have hc := c.toNat_lt
  have hs : c.toNat >>> 1 < 65536 := by rw [Nat.shiftRight_eq_div_pow]; omega
  have hx : c.toNat >>> 1 ^^^ 40961 < 65536 := Nat.xor_lt_two_pow (n := 16) hs (by decide)
  have hand : c.toNat &&& 1 ≤ 1 := Nat.and_le_right
  have hsr : (c >>> 1).toNat = c.toNat >>> 1 := by rw [UInt16.toNat_shiftRight]; rfl
  have hxr : ((c >>> 1) ^^^ 0xA001).toNat = c.toNat >>> 1 ^^^ 40961 := by rw [UInt16.toNat_xor, hsr]; rfl
  have hand' : (c &&& 1).toNat = c.toNat &&& 1 := by rw [UInt16.toNat_and]; rfl
  rw [Nat.mod_eq_of_lt hs, Nat.mod_eq_of_lt hx, Nat.mod_eq_of_lt (by omega : c.toNat &&& 1 < 65536)]
  unfold crc16Bit
  by_cases h : c &&& 1 = 0
  · have h' : c.toNat &&& 1 = 0 := by rw [← hand', h]; rfl
    rw [if_neg (by rw [h]; decide), if_neg (by omega), hsr]
  · have h' : c.toNat &&& 1 ≠ 0 := by
      intro h0; apply h; apply UInt16.toNat_inj.mp; rw [hand', h0]; rfl
    rw [if_pos (bne_iff_ne.mpr h), if_pos h', hxr]

/-- the body of the bit loop is `crc16Bit` on slot 0 -/
private theorem crc16_bit_body (ext : Ext O) (callee) (lf : Nat) (s : St O) (c : UInt16) (h0 : s.loc 0 = .int (c.toNat : Int)) :
    exec ext callee lf []
      (.ite (.cmp .ne (.arith .band (.ty (.u 2)) (.var 0) (.int 1)) (.int 0))
        (.set 0 (.arith .bxor (.ty (.u 2)) (.arith .shr (.ty (.u 2)) (.var 0) (.int 1)) (.int 40961)))
        (.set 0 (.arith .shr (.ty (.u 2)) (.var 0) (.int 1)))) s
      = .norm (s.set 0 (.int ((crc16Bit c).toNat : Int))) := by
  rw [crc16Bit_toNat]
  simp only [exec_ite, exec_set, evalE, resolve, h0, aop_band1, aop_shr1, aop_bxorA, Option.map, wrap_u2, cop_ne0]
  by_cases h : (c.toNat &&& 1) % 65536 = 0
  · simp only [h, ne_eq, not_true_eq_false, decide_false, if_false]
  · simp only [h, ne_eq, not_false_eq_true, decide_true, if_true]

private def iterBit : Nat → UInt16 → UInt16
  | 0, c => c
  | n+1, c => iterBit n (crc16Bit c)

private theorem crc16_bit_loop (ext : Ext O) (callee) (lf : Nat) (n : Nat) : ∀ (fuel : Nat) (s : St O) (c : UInt16),
    n ≤ 8 → n + 1 ≤ fuel → s.loc 0 = .int (c.toNat : Int) → s.loc 2 = .int ((8 : Int) - (n : Int)) →
    ∃ s', whileLoop (fun s => evalE [] s (.cmp .lt (.var 2) (.int 8)))
        (exec ext callee lf []
          (.ite (.cmp .ne (.arith .band (.ty (.u 2)) (.var 0) (.int 1)) (.int 0))
            (.set 0 (.arith .bxor (.ty (.u 2)) (.arith .shr (.ty (.u 2)) (.var 0) (.int 1)) (.int 40961)))
            (.set 0 (.arith .shr (.ty (.u 2)) (.var 0) (.int 1)))))
        (exec ext callee lf [] (.set 2 (.arith .add (.ty .big) (.var 2) (.int 1)))) fuel s = .norm s' ∧
      s'.buf = s.buf ∧ s'.loc 0 = .int ((iterBit n c).toNat : Int) := by
  induction n with
  | zero =>
    intro fuel s c _ hf h0 h2
    obtain ⟨fuel, rfl⟩ : ∃ f', fuel = f' + 1 := ⟨fuel - 1, by omega⟩
    refine ⟨s, ?_, rfl, h0⟩
    simp only [whileLoop, evalE, h2, cop]
    rfl
  | succ n ih =>
    intro fuel s c hn hf h0 h2
    obtain ⟨fuel, rfl⟩ : ∃ f', fuel = f' + 1 := ⟨fuel - 1, by omega⟩
    have hlt : ((8 : Int) - ((n + 1 : Nat) : Int) < 8) := by omega
    obtain ⟨s', g1, g2, g3⟩ := ih fuel
      ((s.set 0 (.int ((crc16Bit c).toNat : Int))).set 2 (.int ((8 : Int) - (n : Int)))) (crc16Bit c)
      (by omega) (by omega) (by simp) (by simp)
    refine ⟨s', ?_, by rw [g2]; rfl, g3⟩
    rw [← g1]
    have h20 : ¬ ((2 : Nat) = 0) := by decide
    have e : (8 : Int) - ((n + 1 : Nat) : Int) + 1 = 8 - (n : Int) := by omega
    have hbig : ∀ m : Int, Ty.big.wrap m = m := fun _ => rfl
    simp only [whileLoop, evalE, h2, cop, hlt, decide_true, crc16_bit_body ext callee lf s c h0, exec_set, resolve,
      St.set_loc, aop, Option.map, hbig, if_neg h20, e]

private theorem crc16_xor_arith (c : UInt16) (b : UInt8) :
    (c.toNat ^^^ b.toNat % 65536) % 65536 = (c ^^^ b.toUInt16).toNat := by
  have hc := c.toNat_lt
  have hb := b.toNat_lt
  have hb' : b.toNat < 2 ^ 16 := by omega
  have hx : c.toNat ^^^ b.toNat < 2 ^ 16 := Nat.xor_lt_two_pow hc hb'
  rw [UInt16.toNat_xor, UInt8.toNat_toUInt16, Nat.mod_eq_of_lt (by omega : b.toNat < 65536), Nat.mod_eq_of_lt (by omega)]

private theorem crc16_body (ext : Ext O) (callee) (lf : Nat) (hlf : 9 ≤ lf) (s : St O) (c : UInt16) (b : UInt8)
    (h0 : s.loc 0 = .int (c.toNat : Int)) (h1 : s.loc 1 = .int (b.toNat : Int)) :
    ∃ s', exec ext callee lf []
        (.seq (.set 0 (.arith .bxor (.ty (.u 2)) (.var 0) (.conv (.ty (.u 2)) (.var 1))))
        (.seq (.set 2 (.int 0))
        (.while (.cmp .lt (.var 2) (.int 8)) (.set 2 (.arith .add (.ty .big) (.var 2) (.int 1)))
        (.ite (.cmp .ne (.arith .band (.ty (.u 2)) (.var 0) (.int 1)) (.int 0))
        (.set 0 (.arith .bxor (.ty (.u 2)) (.arith .shr (.ty (.u 2)) (.var 0) (.int 1)) (.int 40961)))
        (.set 0 (.arith .shr (.ty (.u 2)) (.var 0) (.int 1))))))) s
        = .norm s' ∧ s'.buf = s.buf ∧ s'.loc 0 = .int (((crc16Byte c b).toNat : Nat) : Int) := by
  obtain ⟨s', g1, g2, g3⟩ := crc16_bit_loop ext callee lf 8 lf
    ((s.set 0 (.int ((c ^^^ b.toUInt16).toNat : Int))).set 2 (.int 0)) (c ^^^ b.toUInt16)
    (Nat.le_refl 8) hlf (by simp) (by simp)
  refine ⟨s', ?_, by rw [g2]; rfl, g3⟩
  rw [← g1]
  simp only [exec_seq, exec_set, exec_while, evalE, resolve, h0, h1, wrap_u2, aop_bxor, Option.map, crc16_xor_arith]

theorem ir_crc16 (ext : Ext O) (bs : Bytes) (lf k : Nat) (hlf : 9 ≤ lf) (hk : 1 ≤ k) :
    runFn ext prog lf k ixCrc16 [] [] bs = .ret [.int (Int.ofNat (crc16Go bs).toNat)] bs := by
  obtain ⟨k, rfl⟩ : ∃ k', k = k' + 1 := ⟨k - 1, by omega⟩
  simp only [runFn, ixCrc16, prog_34, PinnedIR.fn34, exec_seq, exec_set, exec_range, exec_ret, evalE, Option.bind, elems]
  obtain ⟨s', h1, h2, h3⟩ := rangeLoop_fold _ crc16Byte (fun a : UInt16 => (a.toNat : Int))
    (crc16_body ext (runFn ext prog lf k) lf hlf) bs (({ buf := bs, loc := initLoc [] } : St O).set 0 (V.int 65535)) 0xFFFF rfl
  simp only [St.set_buf, h1, evalArgs, evalE, h3, Option.bind, Option.map, h2]
  rfl

/-! ### CRC-32 -/

theorem ir_crc32 (ext : Ext O) (bs : Bytes) (lf k : Nat) (hk : 1 ≤ k) :
    runFn ext prog lf k ixCrc32 [] [] bs = .ret [.int (Int.ofNat (crc32Go bs).toNat)] bs := by
  obtain ⟨k, rfl⟩ : ∃ k', k = k' + 1 := ⟨k - 1, by omega⟩
  simp only [runFn, ixCrc32, prog_35, PinnedIR.fn35, exec, evalArgs, evalE, Option.bind, Option.map]
  rfl

/-! ### SSE -/

private theorem sse_arith (a : UInt32) (b : UInt8) :
    (Ty.u 4).wrap ((((Ty.u 4).wrap ((a.toNat : Int) + (Ty.u 4).wrap (b.toNat : Int))).toNat &&& (255 : Int).toNat : Nat) : Int)
      = (((a + b.toUInt32) &&& 0xFF).toNat : Int) := by
  have hN : (256^4 : Nat) = 4294967296 := by decide
  have hb := b.toNat_lt
  have h255 : Int.toNat 255 = 255 := rfl
  have h255' : UInt32.toNat 255 = 255 := rfl
  simp only [Ty.wrap, hN, UInt32.toNat_and, UInt32.toNat_add, UInt8.toNat_toUInt32, h255, h255']
  generalize a.toNat = x
  generalize b.toNat = y at hb ⊢
  have e1 : (((x : Int) + (y : Int) % ((4294967296 : Nat) : Int)) % ((4294967296 : Nat) : Int)).toNat = (x + y) % 4294967296 := by omega
  rw [e1]
  have : (x + y) % 4294967296 &&& 255 ≤ 255 := Nat.and_le_right
  omega

private theorem sse_body (ext : Ext O) (callee) (lf : Nat) (s : St O) (a : UInt32) (b : UInt8)
    (h0 : s.loc 0 = .int (a.toNat : Int)) (h1 : s.loc 1 = .int (b.toNat : Int)) :
    ∃ s', exec ext callee lf []
        (.set 0 (.arith .band (.ty (.u 4)) (.arith .add (.ty (.u 4)) (.var 0) (.conv (.ty (.u 4)) (.var 1))) (.int 255))) s
        = .norm s' ∧ s'.buf = s.buf ∧ s'.loc 0 = .int ((((a + b.toUInt32) &&& 0xFF).toNat : Nat) : Int) := by
  refine ⟨s.set 0 (.int ((((a + b.toUInt32) &&& 0xFF).toNat : Nat) : Int)), ?_, rfl, by simp⟩
  have hnn : (0 : Int) ≤ (Ty.u 4).wrap ((a.toNat : Int) + (Ty.u 4).wrap (b.toNat : Int)) ∧ (0 : Int) ≤ 255 := by
    refine ⟨?_, by decide⟩
    simp only [Ty.wrap]; omega
  simp only [exec_set, evalE, resolve, h0, h1, aop, Option.map, if_pos hnn, sse_arith]

theorem ir_sse (ext : Ext O) (bs : Bytes) (lf k : Nat) (hk : 1 ≤ k) :
    runFn ext prog lf k ixSse [] [] bs = .ret [.int (Int.ofNat (sseGo bs).toNat)] bs := by
  obtain ⟨k, rfl⟩ : ∃ k', k = k' + 1 := ⟨k - 1, by omega⟩
  simp only [runFn, ixSse, prog_36, PinnedIR.fn36, exec_seq, exec_set, exec_range, exec_ret, evalE, Option.bind, elems]
  obtain ⟨s', h1, h2, h3⟩ := rangeLoop_fold _ (fun acc b => (acc + b.toUInt32) &&& 0xFF) (fun a : UInt32 => (a.toNat : Int))
    (sse_body ext (runFn ext prog lf k) lf) bs (({ buf := bs, loc := initLoc [] } : St O).set 0 (V.int 0)) 0 rfl
  simp only [St.set_buf, h1, evalArgs, evalE, h3, Option.bind, Option.map, h2]
  rfl

/-! ### SZSE -/

private theorem szse_arith (a : UInt32) (b : UInt8) :
    (Ty.u 4).wrap ((a.toNat : Int) + (Ty.u 4).wrap (b.toNat : Int)) = (((a + b.toUInt32).toNat : Nat) : Int) := by
  have hN : (256^4 : Nat) = 4294967296 := by decide
  have hb := b.toNat_lt
  simp only [Ty.wrap, hN, UInt32.toNat_add, UInt8.toNat_toUInt32]
  omega

private theorem szse_fin (a : UInt32) :
    (Ty.s 4).wrap ((Ty.u 4).wrap (Int.tmod (a.toNat : Int) 256)) = (((a % 256).toNat : Nat) : Int) := by
  have hN : (256^4 : Nat) = 4294967296 := by decide
  have h256 : UInt32.toNat 256 = 256 := rfl
  have ht : Int.tmod (a.toNat : Int) 256 = (a.toNat : Int) % 256 := Int.tmod_eq_emod_of_nonneg (by omega)
  simp only [Ty.wrap, hN, UInt32.toNat_mod, h256, ht]
  split <;> omega

private theorem szse_body (ext : Ext O) (callee) (lf : Nat) (s : St O) (a : UInt32) (b : UInt8)
    (h0 : s.loc 0 = .int (a.toNat : Int)) (h1 : s.loc 1 = .int (b.toNat : Int)) :
    ∃ s', exec ext callee lf []
        (.set 0 (.arith .add (.ty (.u 4)) (.var 0) (.conv (.ty (.u 4)) (.var 1)))) s
        = .norm s' ∧ s'.buf = s.buf ∧ s'.loc 0 = .int (((a + b.toUInt32).toNat : Nat) : Int) := by
  refine ⟨s.set 0 (.int (((a + b.toUInt32).toNat : Nat) : Int)), ?_, rfl, by simp⟩
  simp only [exec_set, evalE, resolve, h0, h1, aop, Option.map, szse_arith]

theorem ir_szse (ext : Ext O) (bs : Bytes) (lf k : Nat) (hk : 1 ≤ k) :
    runFn ext prog lf k ixSzse [] [] bs = .ret [.int (Int.ofNat (szseGo bs).toNat)] bs := by
  obtain ⟨k, rfl⟩ : ∃ k', k = k' + 1 := ⟨k - 1, by omega⟩
  simp only [runFn, ixSzse, prog_37, PinnedIR.fn37, exec_seq, exec_set, exec_range, exec_ret, evalE, Option.bind, elems]
  obtain ⟨s', h1, h2, h3⟩ := rangeLoop_fold _ (fun acc b => acc + b.toUInt32) (fun a : UInt32 => (a.toNat : Int))
    (szse_body ext (runFn ext prog lf k) lf) bs (({ buf := bs, loc := initLoc [] } : St O).set 0 (V.int 0)) 0 rfl
  have hne : ¬ ((256 : Int) = 0) := by decide
  simp only [St.set_buf, h1, evalArgs, evalE, resolve, h3, aop, if_neg hne, Option.bind, Option.map, h2, szse_fin]
  rfl

end FinProto.GoIR
