import FinProto.NoSvc
namespace FinProto

/-- With no service registered the frame is byte for byte the ordinary frame up to the trailer, and the trailer is
    the caller-supplied checksum in the frame's own byte order (C03 on that path; C04's length is untouched). -/
theorem encFrameNS_spec (env : Env) (encTy : Nat → Val → E Val) (zero : Nat → Val) (fd : FrameDesc) (ty : Nat)
    (fields : List Val) (buf out : Bytes) (v : Val) (alg : Alg) (w c : Nat)
    (h : encFrame env encTy zero fd ty fields buf = .ok (v, out))
    (hc : fd.cks = some (alg, w)) (hf : fields[fd.hdr.length + 2]? = some (.num c)) :
    ∃ b4 v', encFrameNS env encTy zero fd ty fields buf = .ok (v', b4 ++ toE fd.e w c) ∧
      out = b4 ++ toE fd.e w (cksNat alg (b4.drop buf.length)) := by
  unfold encFrame at h
  unfold encFrameNS
  cases h1 : encSeq (encOp env encTy zero fields) fd.hdr (List.take fd.hdr.length fields) buf with
  | err => simp [h1, Outcome.bind] at h
  | panic => simp [h1, Outcome.bind] at h
  | ok p1 =>
    obtain ⟨hv, b1⟩ := p1
    simp only [h1, Outcome.bind] at h ⊢
    cases hb : fields[fd.hdr.length + 1]? with
    | none => simp [hb] at h
    | some body =>
      simp only [hb] at h ⊢
      cases h2 : encPtr encTy fd.g (Option.map zero (unionTy env fd.key fd.tbl fields)) (unionTy env fd.key fd.tbl fields) body
          (b1 ++ toE fd.e fd.lenW 0) with
      | err => simp [h2] at h
      | panic => simp [h2] at h
      | ok p2 =>
        obtain ⟨body', b3⟩ := p2
        simp only [h2, hc, hf] at h ⊢
        by_cases hl : fields.length = fd.hdr.length + 3
        · simp only [hl, if_true] at h ⊢
          injection h with h
          injection h with hv' hout
          exact ⟨_, _, rfl, hout.symm⟩
        · simp [hl] at h

/-- the same, for the whole `Encode` of a checksummed frame type -/
theorem encodeNS_spec (env : Env) (ty : Nat) (fields : List Val) (td : TyDef) (fd : FrameDesc) (buf out : Bytes) (v : Val)
    (alg : Alg) (w c : Nat)
    (ht : env.types[ty]? = some td) (hfr : td.frame = some fd)
    (h : encode env (.msg ty fields) buf = .ok (v, out))
    (hc : fd.cks = some (alg, w)) (hf : fields[fd.hdr.length + 2]? = some (.num c)) :
    ∃ b4 v', encodeNS env (.msg ty fields) buf = .ok (v', b4 ++ toE fd.e w c) ∧
      out = b4 ++ toE fd.e w (cksNat alg (b4.drop buf.length)) := by
  have h' : encFrame env (encTy env (env.fuel - 1)) (zeroTy env (env.fuel - 1)) fd ty fields buf = .ok (v, out) := by
    simpa [encode, Env.fuel, encTy, ht, hfr] using h
  simpa [encodeNS, ht, hfr] using encFrameNS_spec env _ _ fd ty fields buf out v alg w c h' hc hf

end FinProto
