import FinProto.NoSvc
import FinProto.Props.EncLemmas
namespace FinProto

/-- With no service registered the frame is byte for byte the ordinary frame up to the trailer, and the trailer is
    the caller-supplied checksum in the frame's own byte order (C03 on that path; C04's length is untouched). -/
theorem encFrameNS_spec (env : Env) (encTy : Nat → Val → E Val) (zero : Nat → Val) (fd : FrameDesc) (ty : Nat)
    (fields : List Val) (buf out : Bytes) (v : Val) (alg : Alg) (w c : Nat)
    (h : encFrame env encTy zero fd ty fields buf = .ok (v, out))
    (hc : fd.cks = some (alg, w)) (hf : fields[fd.hdr.length + 2]? = some (.num c)) :
    ∃ b4 v', encFrameNS env encTy zero fd ty fields buf = .ok (v', b4 ++ toE fd.e w c) ∧
      out = b4 ++ toE fd.e w (cksNat alg (b4.drop buf.length)) := by
  unfold encFrame at h
  unfold encFrameNS
  cases h1 : encSeq (encOp env encTy zero fields) fd.hdr (List.take fd.hdr.length fields) buf with
  | err => simp [h1, Outcome.bind] at h
  | panic => simp [h1, Outcome.bind] at h
  | ok p1 =>
    obtain ⟨hv, b1⟩ := p1
    simp only [h1, Outcome.bind] at h ⊢
    cases hb : fields[fd.hdr.length + 1]? with
    | none => simp [hb] at h
    | some body =>
      simp only [hb] at h ⊢
      cases h2 : encPtr encTy fd.g (Option.map zero (unionTy env fd.key fd.tbl fields)) (unionTy env fd.key fd.tbl fields) body
          (b1 ++ toE fd.e fd.lenW 0) with
      | err => simp [h2] at h
      | panic => simp [h2] at h
      | ok p2 =>
        obtain ⟨body', b3⟩ := p2
        simp only [h2, hc, hf] at h ⊢
        by_cases hl : fields.length = fd.hdr.length + 3
        · simp only [hl, if_true] at h ⊢
          injection h with h
          injection h with hv' hout
          exact ⟨_, _, rfl, hout.symm⟩
        · simp [hl] at h

/-- the same, for the whole `Encode` of a checksummed frame type -/
theorem encodeNS_spec (env : Env) (ty : Nat) (fields : List Val) (td : TyDef) (fd : FrameDesc) (buf out : Bytes) (v : Val)
    (alg : Alg) (w c : Nat)
    (ht : env.types[ty]? = some td) (hfr : td.frame = some fd)
    (h : encode env (.msg ty fields) buf = .ok (v, out))
    (hc : fd.cks = some (alg, w)) (hf : fields[fd.hdr.length + 2]? = some (.num c)) :
    ∃ b4 v', encodeNS env (.msg ty fields) buf = .ok (v', b4 ++ toE fd.e w c) ∧
      out = b4 ++ toE fd.e w (cksNat alg (b4.drop buf.length)) := by
  have h' : encFrame env (encTy env (env.fuel - 1)) (zeroTy env (env.fuel - 1)) fd ty fields buf = .ok (v, out) := by
    simpa [encode, Env.fuel, encTy, ht, hfr] using h
  simpa [encodeNS, ht, hfr] using encFrameNS_spec env _ _ fd ty fields buf out v alg w c h' hc hf

/-- C04 / C06 on the path without a checksum service: the bytes appended are the ordinary frame (header, body length patched to
    the body's size, body) followed by the caller's checksum in the frame's byte order; nothing before `pre` changes. -/
theorem encFrameNS_frame {env : Env} {f ty : Nat} {td : TyDef} {fd : FrameDesc} {fields : List Val}
    {pre out : Bytes} {v' : Val} {alg : Alg} {w c : Nat}
    (htd : env.types[ty]? = some td) (hfr : td.frame = some fd) (hc : fd.cks = some (alg, w))
    (hf : fields[fd.hdr.length + 2]? = some (.num c))
    (h : encTy env (f + 1) ty (.msg ty fields) pre = .ok (v', out)) :
    ∃ hdrBytes bodyBytes v'',
      encFrameNS env (encTy env f) (zeroTy env f) fd ty fields pre
        = .ok (v'', pre ++ frameBytes fd hdrBytes bodyBytes ++ toE fd.e w c) := by
  obtain ⟨hv, hb, body, body', bb, h1, h2, h3, hout, _⟩ := frame_cks_exact htd hfr hc h
  have h' : encFrame env (encTy env f) (zeroTy env f) fd ty fields pre = .ok (v', out) := by
    simpa [encTy, htd, hfr] using h
  obtain ⟨b4, v'', hns, hb4⟩ := encFrameNS_spec env _ _ fd ty fields pre out v' alg w c h' hc hf
  refine ⟨hb, bb, v'', ?_⟩
  rw [hns]
  -- both descriptions of `out` end in a `w`-byte trailer: the parts before it are equal
  have hlen : (pre ++ frameBytes fd hb bb).length = b4.length := by
    have := congrArg List.length (hout.symm.trans hb4)
    simp only [List.length_append, toE_length] at this
    simp only [List.length_append]
    omega
  have := List.append_inj (hout.symm.trans hb4) hlen
  rw [← this.1]

end FinProto
