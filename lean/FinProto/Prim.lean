/-
  One Lean function per codec primitive of codec/binary_codec.go, following the Go statement order.
  Writers return the bytes they append (or fail); readers are `R` values.
-/
import FinProto.Outcome
namespace FinProto

/-! ### fixed-width text -/

/-- strip the maximal run of `pad` from the front -/
def trimL (pad : UInt8) : Bytes → Bytes
  | [] => []
  | b :: bs => if b = pad then trimL pad bs else b :: bs

/-- strip the maximal run of `pad` from the back -/
def trimR (pad : UInt8) (bs : Bytes) : Bytes := (trimL pad bs.reverse).reverse

def trim (pad : UInt8) (left : Bool) (bs : Bytes) : Bytes :=
  if left then trimL pad bs else trimR pad bs

/-- WriteFixedStringWithPadding: cut to `n` bytes, or pad on the pad side -/
def writeFixed (n : Nat) (pad : UInt8) (left : Bool) (s : Bytes) : Bytes :=
  if s.length > n then s.take n
  else if left then List.replicate (n - s.length) pad ++ s
  else s ++ List.replicate (n - s.length) pad

/-- ReadFixedStringTrimPadding -/
def readFixed (n : Nat) (pad : UInt8) (left : Bool) : R Bytes := mapR (trim pad left) (takeN n)

/-! ### scalars -/

def writeScalar (w : Nat) (e : Endian) (n : Nat) : Bytes := toE e w n
def readScalar (w : Nat) (e : Endian) : R Nat := mapR (ofE e) (takeN w)

/-! ### length / count prefixes -/

/-- writeLen: refuse a value the prefix cannot represent -/
def writeLen (w : Nat) (e : Endian) (n : Nat) : Outcome Bytes :=
  if n < 256 ^ w then .ok (toE e w n) else .err

/-- Go converts the prefix with `int(t)`: an 8-byte prefix ≥ 2^63 becomes negative and `make` panics -/
def lenGuard (n : Nat) (k : R α) : R α := if n < 2 ^ 63 then k else panicR

/-! ### length-prefixed text -/

def writeVstr (pw : Nat) (e : Endian) (s : Bytes) : Outcome Bytes :=
  (writeLen pw e s.length).map (· ++ s)

def readVstr (pw : Nat) (e : Endian) : R Bytes :=
  bindR (readScalar pw e) (fun len => lenGuard len (takeN len))

/-! ### lists -/

/-- count prefix, then the elements in order; the first failing element fails the list -/
def writeAll (f : α → Outcome Bytes) : List α → Outcome Bytes
  | [] => .ok []
  | a :: as => (f a).bind (fun b => (writeAll f as).map (b ++ ·))

def writeList (cw : Nat) (e : Endian) (f : α → Outcome Bytes) (l : List α) : Outcome Bytes :=
  (writeLen cw e l.length).bind (fun c => (writeAll f l).map (c ++ ·))

def readList (cw : Nat) (e : Endian) (elem : R α) : R (List α) :=
  bindR (readScalar cw e) (fun count => lenGuard count (decRep elem count))

def writeNums (cw w : Nat) (e : Endian) (l : List Nat) : Outcome Bytes :=
  writeList cw e (fun n => .ok (writeScalar w e n)) l
def readNums (cw w : Nat) (e : Endian) : R (List Nat) := readList cw e (readScalar w e)

def writeFixeds (cw n : Nat) (pad : UInt8) (left : Bool) (e : Endian) (l : List Bytes) : Outcome Bytes :=
  writeList cw e (fun s => .ok (writeFixed n pad left s)) l
def readFixeds (cw n : Nat) (pad : UInt8) (left : Bool) (e : Endian) : R (List Bytes) :=
  readList cw e (readFixed n pad left)

def writeVstrs (cw pw : Nat) (e : Endian) (l : List Bytes) : Outcome Bytes :=
  writeList cw e (writeVstr pw e) l
def readVstrs (cw pw : Nat) (e : Endian) : R (List Bytes) := readList cw e (readVstr pw e)

end FinProto
