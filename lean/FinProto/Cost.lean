/-
  An INSTRUMENTED decoder: same recursion and the same combinator structure as `decOp/decSeq/decTy`
  (Interp.lean), but every reader additionally returns a cost record (properties C09 "never loops",
  C10 "allocates in proportion to the input").  Definitions only; core Lean only.

  Cost model (the Go code after the repair that bounds allocations; `rem` = number of unread bytes at
  that moment):
   * `takeNC n` (io.ReadFull into a fresh `make([]byte, n)`): 1 step, requests `n` bytes ALWAYS (in
     `readFixed n` the `make` happens before the availability check; in `readScalar w` the `w` bytes
     are binary.Read's scratch).
   * `readVstrC pw`: the prefix is a `readScalarC`; then `if length > buf.Len() { return error }` comes
     BEFORE `make`: `takeAvailC len` requests `len` bytes only when `len ≤ rem`, else it fails with 1 step
     and no request.  `lenGuardC`'s panic branch is the one of the model.
   * `readListC cw e esz elem`: count prefix; `make(.., 0, min(count, rem))` requests
     `min count rem * esz` bytes (`esz` = 8 for object pointers, 16 for string headers, `w` for numbers
     of width `w`); then the loop: every iteration costs 1 step plus the element's own cost and the
     loop stops at the first failing element.
   * object elements / nested objects / union bodies: constructing the object requests `objSize ty`
     bytes, `objSize : Nat → Nat` being a PARAMETER (the Go struct size of type `ty`).
   * `optRC` (type-table lookup, union lookup): 1 step, also when the lookup fails.
-/
import FinProto.Checks
namespace FinProto

structure Cost where
  steps : Nat          -- primitive reads + loop iterations executed (also on failing paths)
  alloc : Nat          -- total bytes requested from the allocator
  maxReq : Nat         -- largest single request
  deriving Repr, DecidableEq

namespace Cost
/-- nothing happened -/
def zero : Cost := ⟨0, 0, 0⟩
/-- sequential composition: steps and bytes add up, the largest single request is the larger one -/
def add (a b : Cost) : Cost := ⟨a.steps + b.steps, a.alloc + b.alloc, max a.maxReq b.maxReq⟩
instance : Add Cost := ⟨add⟩
/-- one primitive read / loop iteration / table lookup -/
def step : Cost := ⟨1, 0, 0⟩
/-- one request of `n` bytes from the allocator -/
def req (n : Nat) : Cost := ⟨0, n, n⟩
/-- one primitive read into a fresh `n`-byte buffer -/
def read (n : Nat) : Cost := ⟨1, n, n⟩
end Cost

abbrev RC (α : Type) := Bytes → Outcome (α × Bytes) × Cost      -- cost is reported on ok, err and panic alike

def pureRC (a : α) : RC α := fun b => (.ok (a, b), Cost.zero)
def failRC : RC α := fun _ => (.err, Cost.zero)
def panicRC : RC α := fun _ => (.panic, Cost.zero)

/-- pay `c`, then run `r` -/
def chargeRC (c : Cost) (r : RC α) : RC α := fun b =>
  match r b with
  | (o, c') => (o, c + c')

/-- sequencing: the cost of the first reader is paid whatever its outcome; the continuation runs (and
    is paid for) only after a success -/
def bindRC (r : RC α) (f : α → RC β) : RC β := fun b =>
  match r b with
  | (.ok p, c) =>
    (match f p.1 p.2 with
     | (o, c') => (o, c + c'))
  | (.err, c) => (.err, c)
  | (.panic, c) => (.panic, c)

def mapRC (f : α → β) (r : RC α) : RC β := bindRC r (fun a => pureRC (f a))

/-- `buf := make([]byte, n); io.ReadFull(r, buf)`: the request is made before anything is known about
    the input -/
def takeNC (n : Nat) : RC Bytes := fun b => (takeN n b, Cost.read n)

/-- `if n > r.Len() { return err }; buf := make([]byte, n); io.ReadFull(r, buf)`: nothing is requested
    unless the bytes are present -/
def takeAvailC (n : Nat) : RC Bytes := fun b =>
  match splitN n b with
  | some p => (.ok p, Cost.read n)
  | none => (.err, Cost.step)

/-- a request whose size depends on the number of unread bytes -/
def reqRC (g : Nat → Nat) : RC Unit := fun b => (.ok ((), b), Cost.req (g b.length))

/-- run `elem` up to `n` times: every iteration executed costs one step plus the element's own cost -/
def decRepC (elem : RC α) : Nat → RC (List α)
  | 0 => pureRC []
  | n+1 => chargeRC Cost.step (bindRC elem (fun a => mapRC (fun l => a :: l) (decRepC elem n)))

/-- a table lookup costs one step, found or not -/
def optRC (o : Option α) (k : α → RC β) : RC β :=
  match o with
  | some a => chargeRC Cost.step (k a)
  | none => chargeRC Cost.step failRC

def lenGuardC (n : Nat) (k : RC α) : RC α := if n < 2 ^ 63 then k else panicRC

/-! ### primitives -/

def readFixedC (n : Nat) (pad : UInt8) (left : Bool) : RC Bytes := mapRC (trim pad left) (takeNC n)

def readScalarC (w : Nat) (e : Endian) : RC Nat := mapRC (ofE e) (takeNC w)

def readVstrC (pw : Nat) (e : Endian) : RC Bytes :=
  bindRC (readScalarC pw e) (fun len => lenGuardC len (takeAvailC len))

/-- `esz`: bytes per slot of the result slice; its capacity is `min count rem` -/
def readListC (cw : Nat) (e : Endian) (esz : Nat) (elem : RC α) : RC (List α) :=
  bindRC (readScalarC cw e) (fun count => lenGuardC count
    (bindRC (reqRC (fun rem => min count rem * esz)) (fun _ => decRepC elem count)))

def readNumsC (cw w : Nat) (e : Endian) : RC (List Nat) := readListC cw e w (readScalarC w e)

def readFixedsC (cw n : Nat) (pad : UInt8) (left : Bool) (e : Endian) : RC (List Bytes) :=
  readListC cw e 16 (readFixedC n pad left)

def readVstrsC (cw pw : Nat) (e : Endian) : RC (List Bytes) := readListC cw e 16 (readVstrC pw e)

/-! ### the interpreter -/

/-- `obj := &T{}` (a request of `objSize ty` bytes), then `obj.Decode(r)` -/
def newObjC (objSize : Nat → Nat) (decTyC : Nat → RC Val) (ty : Nat) : RC Val :=
  chargeRC (Cost.req (objSize ty)) (decTyC ty)

def decOpC (env : Env) (objSize : Nat → Nat) (decTyC : Nat → RC Val) (acc : List Val) : Op → RC Val
  | .scalar w e => mapRC Val.num (readScalarC w e)
  | .fixed n pad left => mapRC Val.str (readFixedC n (UInt8.ofNat pad) left)
  | .vstr pw e => mapRC Val.str (readVstrC pw e)
  | .nums cw w e => mapRC Val.nums (readNumsC cw w e)
  | .fixeds cw n pad left e => mapRC Val.strs (readFixedsC cw n (UInt8.ofNat pad) left e)
  | .vstrs cw pw e => mapRC Val.strs (readVstrsC cw pw e)
  | .nested ty _ => newObjC objSize decTyC ty
  | .objs cw ty e => mapRC Val.msgs (readListC cw e 8 (newObjC objSize decTyC ty))
  | .union key tbl _ => optRC (unionTy env key tbl acc) (newObjC objSize decTyC)
  | .opaque => failRC

def decSeqC (step : List Val → Op → RC Val) : List Op → List Val → RC (List Val)
  | [], acc => pureRC acc
  | op :: ops, acc => bindRC (step acc op) (fun v => decSeqC step ops (acc ++ [v]))

def decTyC (env : Env) (objSize : Nat → Nat) : Nat → Nat → RC Val
  | 0, _ => failRC
  | f+1, ty => optRC env.types[ty]? (fun td =>
      mapRC (Val.msg ty) (decSeqC (decOpC env objSize (decTyC env objSize f)) td.dec []))

def decodeC (env : Env) (objSize : Nat → Nat) (ty : Nat) : RC Val := decTyC env objSize env.fuel ty

end FinProto
