import FinProto.Obl.C12
#print axioms FinProto.Obl.C12_tables
#print axioms FinProto.Obl.C12_types
#print axioms FinProto.Obl.C12_mirror
#print axioms FinProto.Obl.C12_refs
#print axioms FinProto.Obl.C12_dec_builds_table_type
#print axioms FinProto.Obl.C12_dec_unknown_is_error
#print axioms FinProto.dec_union_ok
#print axioms FinProto.dec_union_unknown
#print axioms FinProto.enc_union_nil
#print axioms FinProto.lookup_last_wins
#print axioms FinProto.decTy_ok_msg
