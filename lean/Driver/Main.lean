/-
  Model driver: evaluates the SAME definitions the theorems are about (FinProto.Interp / Prim /
  Checksum / Registry at the regenerated environment `Gen.env`) on the cases the Go harness writes,
  one case per line, and prints canonical results.  Core Lean only.
-/
import FinProto.Wire
import FinProto.Gen
import FinProto.Pinned
import FinProto.Spec
import FinProto.Registry
import FinProto.Cost
import FinProto.NoSvc
open FinProto FinProto.Wire

def showOutcome (f : α → String) : Outcome α → String
  | .ok a => "ok | " ++ f a
  | .err => "err"
  | .panic => "panic"


def parseCalls : List String → Option (List Reg.Call)
  | [] => some []
  | "R" :: n :: i :: rest => do
    let n ← n.toNat?
    let i ← i.toNat?
    let cs ← parseCalls rest
    pure (.reg n i :: cs)
  | "G" :: n :: rest => do
    let n ← n.toNat?
    let cs ← parseCalls rest
    pure (.get n :: cs)
  | "D" :: n :: rest => do
    let n ← n.toNat?
    let cs ← parseCalls rest
    pure (.remove n :: cs)
  | "C" :: rest => do
    let cs ← parseCalls rest
    pure (.clear :: cs)
  | _ => none

def showRes : Reg.Res → String
  | .bool true => " t"
  | .bool false => " f"
  | .svc none => " none"
  | .svc (some i) => s!" s{i}"
  | .unit => " u"

def runLine (env : Env) (toks : List String) : String :=
  match toks with
  | "enc" :: pre :: rest =>
    match parseHex pre, pVal rest with
    | some pre, some (v, []) =>
      showOutcome (fun (p : Val × Bytes) =>
        (if p.2.take pre.length == pre then "" else "PRE-CHANGED ") ++ hexOf (p.2.drop pre.length) ++ " | " ++ showVal p.1)
        (encode env v pre)
    | _, _ => "bad-case"
  | ["dec", ty, hex] =>
    match ty.toNat?, parseHex hex with
    | some ty, some bs =>
      showOutcome (fun (p : Val × Bytes) => s!"{bs.length - p.2.length} | " ++ showVal p.1) (decode env ty bs)
    | _, _ => "bad-case"
  | "encns" :: pre :: rest =>          -- Encode with no checksum service registered
    match parseHex pre, pVal rest with
    | some pre, some (v, []) =>
      showOutcome (fun (p : Val × Bytes) =>
        (if p.2.take pre.length == pre then "" else "PRE-CHANGED ") ++ hexOf (p.2.drop pre.length) ++ " | " ++ showVal p.1)
        (encodeNS env v pre)
    | _, _ => "bad-case"
  | "penc" :: _ :: rest =>
    match pVal rest with
    | some (v, []) =>
      match Spec.render Pinned.env v with
      | some bs => "ok | " ++ hexOf bs
      | none => "fail"
    | _ => "bad-case"
  | ["pdec", ty, hex] =>
    match ty.toNat?, parseHex hex with
    | some ty, some bs =>
      showOutcome (fun (p : Val × Bytes) => s!"{bs.length - p.2.length} | " ++ showVal p.1) (decode Pinned.env ty bs)
    | _, _ => "bad-case"
  | "wop" :: rest =>
    match pOp rest with
    | some (op, rest) =>
      match pVal rest with
      | some (v, []) =>
        showOutcome (fun (p : Val × Bytes) => hexOf p.2 ++ " | " ++ showVal p.1)
          (encOp env (encTy env env.fuel) (zeroTy env env.fuel) [] op v [])
      | _ => "bad-case"
    | none => "bad-case"
  | "rop" :: rest =>
    match pOp rest with
    | some (op, [hex]) =>
      match parseHex hex with
      | some bs =>
        showOutcome (fun (p : Val × Bytes) => s!"{bs.length - p.2.length} | " ++ showVal p.1)
          (decOp env (decTy env env.fuel) [] op bs)
      | none => "bad-case"
    | _ => "bad-case"
  | ["cks", alg, hex] =>
    match pAlg [alg], parseHex hex with
    | some (a, _), some bs => s!"ok | {cksNat a bs}"
    | _, _ => "bad-case"
  | ["cksrep", alg, n, b] =>
    match pAlg [alg], n.toNat?, b.toNat? with
    | some (a, _), some n, some b => s!"ok | {cksNat a (List.replicate n (UInt8.ofNat b))}"
    | _, _, _ => "bad-case"
  | ["cost", ty, hex] =>
    match ty.toNat?, parseHex hex with
    | some ty, some bs =>
      let c := (decTyC env (fun _ => 512) env.fuel ty bs).2
      s!"ok | {c.steps} {c.alloc} {c.maxReq}"
    | _, _ => "bad-case"
  | "reg" :: rest =>
    match parseCalls rest with
    | some cs => "ok |" ++ String.join ((Reg.runSpec [] cs).2.map showRes)
    | none => "bad-case"
  | ["zero", ty] =>
    match ty.toNat? with
    | some ty => "ok | " ++ showVal (zeroTy env env.fuel ty)
    | none => "bad-case"
  | ["lookup", tbl, "n", k] =>
    match tbl.toNat?, k.toNat? with
    | some t, some k => (match env.lookup t (.n k) with | some ty => s!"ok | {ty}" | none => "err")
    | _, _ => "bad-case"
  | ["lookup", tbl, "s", k] =>
    match tbl.toNat?, parseHex k with
    | some t, some k => (match env.lookup t (.s k) with | some ty => s!"ok | {ty}" | none => "err")
    | _, _ => "bad-case"
  | _ => "bad-case"

partial def loop (env : Env) (hin hout : IO.FS.Stream) : IO Unit := do
  let line ← hin.getLine
  if line.isEmpty then return ()
  let toks := (line.trimAscii.toString.splitOn " ").filter (· ≠ "")
  hout.putStrLn (runLine env toks)
  loop env hin hout

/-- `driver` evaluates the cases at the environment regenerated from the current sources; `driver --pinned` at the
    committed pinned environment (used when the regenerated one contains unrecognised statements) -/
def main (args : List String) : IO Unit := do
  let hin ← IO.getStdin
  let hout ← IO.getStdout
  loop (if args.contains "--pinned" then Pinned.env else Gen.env) hin hout
  hout.flush
