/-
  Model driver: evaluates the SAME definitions the theorems are about (FinProto.Interp / Prim /
  Checksum / Registry at the regenerated environment `Gen.env`) on the cases the Go harness writes,
  one case per line, and prints canonical results.  Core Lean only.
-/
import FinProto.Wire
import FinProto.Gen
import FinProto.Pinned
import FinProto.Spec
import FinProto.Registry
import FinProto.Cost
import FinProto.NoSvc
import FinProto.GoIRSpec
import FinProto.GenCodec
open FinProto FinProto.Wire

def showOutcome (f : α → String) : Outcome α → String
  | .ok a => "ok | " ++ f a
  | .err => "err"
  | .panic => "panic"


def parseCalls : List String → Option (List Reg.Call)
  | [] => some []
  | "R" :: n :: i :: rest => do
    let n ← n.toNat?
    let i ← i.toNat?
    let cs ← parseCalls rest
    pure (.reg n i :: cs)
  | "G" :: n :: rest => do
    let n ← n.toNat?
    let cs ← parseCalls rest
    pure (.get n :: cs)
  | "D" :: n :: rest => do
    let n ← n.toNat?
    let cs ← parseCalls rest
    pure (.remove n :: cs)
  | "C" :: rest => do
    let cs ← parseCalls rest
    pure (.clear :: cs)
  | _ => none

def showRes : Reg.Res → String
  | .bool true => " t"
  | .bool false => " f"
  | .svc none => " none"
  | .svc (some i) => s!" s{i}"
  | .unit => " u"

/-- the methods of the element type of an object list, taken from the schema interpreter -/
def irExt (env : Env) (op : Op) : GoIR.Ext Val :=
  match op with
  | .objs _ ty _ =>
    { enc := fun o b => (encTy env env.fuel ty o b).map (·.2), new := zeroTy env env.fuel ty, dec := fun _ => decTy env env.fuel ty }
  | _ => { enc := fun _ _ => .err, new := .nil, dec := fun _ _ => .err }

def irCall (env : Env) (ir : List GoIR.Func) (op : Op) (c : Nat × List GoIR.Ty × List (GoIR.V Val)) (buf : Bytes) : GoIR.CallRes Val :=
  GoIR.runFn (irExt env op) ir GoIR.loopFuel GoIR.callDepth c.1 c.2.1 c.2.2 buf

def cksIx : Alg → Option Nat
  | .crc16 => some GoIR.ixCrc16
  | .crc32 => some GoIR.ixCrc32
  | .sse => some GoIR.ixSse
  | .szse => some GoIR.ixSzse
  | .unknown => none

def runLine (env : Env) (ir : List GoIR.Func) (toks : List String) : String :=
  match toks with
  | "irw" :: d :: rest =>             -- the codec function an encoder statement names, as translated into GoIR from the source
    match pOp rest with
    | some (op, rest) =>
      match pVal rest with
      | some (v, []) =>
        match GoIR.opWriter (d == "1") op v with
        | some c =>
          if GoIR.runnable ir GoIR.callDepth c.1 then
            match irCall env ir op c [] with
            | .ret [.err false] b => "ok | " ++ hexOf b ++ " | " ++ showVal v
            | .ret [.err true] _ => "err"
            | .panic => "panic"
            | .timeout => "timeout"
            | _ => "ir-bad-result"
          else "ir-skip"
        | none => "bad-case"
      | _ => "bad-case"
    | none => "bad-case"
  | "irr" :: d :: rest =>
    match pOp rest with
    | some (op, [hex]) =>
      match parseHex hex, GoIR.opReader (d == "1") op with
      | some bs, some c =>
        if GoIR.runnable ir GoIR.callDepth c.1 then
          match irCall env ir op c bs with
          | .ret [x, .err false] b =>
            (match GoIR.valOfV x with
             | some v => s!"ok | {bs.length - b.length} | " ++ showVal v
             | none => "ir-bad-value")
          | .ret [_, .err true] _ => "err"
          | .panic => "panic"
          | .timeout => "timeout"
          | _ => "ir-bad-result"
        else "ir-skip"
      | _, _ => "bad-case"
    | _ => "bad-case"
  | ["irc", alg, hex] =>
    match pAlg [alg], parseHex hex with
    | some (a, _), some bs =>
      match cksIx a with
      | some f =>
        if GoIR.runnable ir GoIR.callDepth f then
          match GoIR.runFn GoIR.noExt ir GoIR.loopFuel GoIR.callDepth f [] [] bs with
          | .ret [.int n] b => if b == bs then s!"ok | {n % 4294967296}" else "ir-buffer-changed"
          | .panic => "panic"
          | .timeout => "timeout"
          | _ => "ir-bad-result"
        else "ir-skip"
      | none => "bad-case"
    | _, _ => "bad-case"
  | "enc" :: pre :: rest =>
    match parseHex pre, pVal rest with
    | some pre, some (v, []) =>
      showOutcome (fun (p : Val × Bytes) =>
        (if p.2.take pre.length == pre then "" else "PRE-CHANGED ") ++ hexOf (p.2.drop pre.length) ++ " | " ++ showVal p.1)
        (encode env v pre)
    | _, _ => "bad-case"
  | ["dec", ty, hex] =>
    match ty.toNat?, parseHex hex with
    | some ty, some bs =>
      showOutcome (fun (p : Val × Bytes) => s!"{bs.length - p.2.length} | " ++ showVal p.1) (decode env ty bs)
    | _, _ => "bad-case"
  | "encns" :: pre :: rest =>          -- Encode with no checksum service registered
    match parseHex pre, pVal rest with
    | some pre, some (v, []) =>
      showOutcome (fun (p : Val × Bytes) =>
        (if p.2.take pre.length == pre then "" else "PRE-CHANGED ") ++ hexOf (p.2.drop pre.length) ++ " | " ++ showVal p.1)
        (encodeNS env v pre)
    | _, _ => "bad-case"
  | "penc" :: _ :: rest =>
    match pVal rest with
    | some (v, []) =>
      match Spec.render Pinned.env v with
      | some bs => "ok | " ++ hexOf bs
      | none => "fail"
    | _ => "bad-case"
  | ["pdec", ty, hex] =>
    match ty.toNat?, parseHex hex with
    | some ty, some bs =>
      showOutcome (fun (p : Val × Bytes) => s!"{bs.length - p.2.length} | " ++ showVal p.1) (decode Pinned.env ty bs)
    | _, _ => "bad-case"
  | "wop" :: rest =>
    match pOp rest with
    | some (op, rest) =>
      match pVal rest with
      | some (v, []) =>
        showOutcome (fun (p : Val × Bytes) => hexOf p.2 ++ " | " ++ showVal p.1)
          (encOp env (encTy env env.fuel) (zeroTy env env.fuel) [] op v [])
      | _ => "bad-case"
    | none => "bad-case"
  | "rop" :: rest =>
    match pOp rest with
    | some (op, [hex]) =>
      match parseHex hex with
      | some bs =>
        showOutcome (fun (p : Val × Bytes) => s!"{bs.length - p.2.length} | " ++ showVal p.1)
          (decOp env (decTy env env.fuel) [] op bs)
      | none => "bad-case"
    | _ => "bad-case"
  | ["cks", alg, hex] =>
    match pAlg [alg], parseHex hex with
    | some (a, _), some bs => s!"ok | {cksNat a bs}"
    | _, _ => "bad-case"
  | ["cksrep", alg, n, b] =>
    match pAlg [alg], n.toNat?, b.toNat? with
    | some (a, _), some n, some b => s!"ok | {cksNat a (List.replicate n (UInt8.ofNat b))}"
    | _, _, _ => "bad-case"
  | ["cost", ty, hex] =>
    match ty.toNat?, parseHex hex with
    | some ty, some bs =>
      let c := (decTyC env (fun _ => 512) env.fuel ty bs).2
      s!"ok | {c.steps} {c.alloc} {c.maxReq}"
    | _, _ => "bad-case"
  | "reg" :: rest =>
    match parseCalls rest with
    | some cs => "ok |" ++ String.join ((Reg.runSpec [] cs).2.map showRes)
    | none => "bad-case"
  | ["zero", ty] =>
    match ty.toNat? with
    | some ty => "ok | " ++ showVal (zeroTy env env.fuel ty)
    | none => "bad-case"
  | ["lookup", tbl, "n", k] =>
    match tbl.toNat?, k.toNat? with
    | some t, some k => (match env.lookup t (.n k) with | some ty => s!"ok | {ty}" | none => "err")
    | _, _ => "bad-case"
  | ["lookup", tbl, "s", k] =>
    match tbl.toNat?, parseHex k with
    | some t, some k => (match env.lookup t (.s k) with | some ty => s!"ok | {ty}" | none => "err")
    | _, _ => "bad-case"
  | _ => "bad-case"

partial def loop (env : Env) (ir : List GoIR.Func) (hin hout : IO.FS.Stream) : IO Unit := do
  let line ← hin.getLine
  if line.isEmpty then return ()
  let toks := (line.trimAscii.toString.splitOn " ").filter (· ≠ "")
  hout.putStrLn (runLine env ir toks)
  loop env ir hin hout

/-- `driver` evaluates the cases at the environment regenerated from the current sources; `driver --pinned` at the
    committed pinned environment (used when the regenerated one contains unrecognised statements) -/
def main (args : List String) : IO Unit := do
  let hin ← IO.getStdin
  let hout ← IO.getStdout
  if args.contains "--pinned" then loop Pinned.env PinnedIR.codecProg hin hout
  else loop Gen.env Gen.codecProg hin hout
  hout.flush
