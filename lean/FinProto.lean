import FinProto.Basic
