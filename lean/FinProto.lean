-- This module serves as the root of the `FinProto` library.
-- Import modules here that should be built as part of the library.
import FinProto.Basic
