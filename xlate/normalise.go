package main

// Normalisation of a codec method before the statement recognisers run.  Every rule is a behaviour-preserving
// rewriting of Go source, stated here so that the trusted part of the translator is explicit:
//
//   N1  the *bytes.Buffer parameter is called `buf` (alpha-renaming of a parameter);
//   N2  package-level integer constants are replaced by their literal values;
//   N3  `if err := p.helper(buf); err != nil { return err }`, where helper is a method of the same type taking the buffer
//       and returning error, whose body ends in its only `return nil`, is replaced by helper's statements (its receiver
//       and parameter renamed);  a helper's `return <e>` inside an error branch returns the same error the caller returns;
//   N4  a final `return CALL` (CALL returning error) is `if err := CALL; err != nil { return err }; return nil`;
//   N5  the error variable of an `if x := CALL; x != nil { return x }` may have any name (renamed to `err`).
//
// Nothing else is rewritten; a shape outside these rules reaches the recognisers unchanged and is reported as
// unrecognised (`opaque`) there.

import (
	"go/ast"
	"go/token"
	"strconv"
)

// renameIdent renames every identifier `from` to `to` below n (selectors' field names are untouched)
func renameIdent(n ast.Node, from, to string) {
	if from == to || from == "" || from == "_" {
		return
	}
	ast.Inspect(n, func(x ast.Node) bool {
		switch y := x.(type) {
		case *ast.SelectorExpr:
			renameIdent(y.X, from, to)
			return false
		case *ast.KeyValueExpr:
			renameIdent(y.Value, from, to)
			return false
		case *ast.Ident:
			if y.Name == from {
				y.Name = to
			}
		}
		return true
	})
}

func usesIdent(n ast.Node, name string) bool {
	found := false
	ast.Inspect(n, func(x ast.Node) bool {
		switch y := x.(type) {
		case *ast.SelectorExpr:
			if usesIdent(y.X, name) {
				found = true
			}
			return false
		case *ast.Ident:
			if y.Name == name {
				found = true
			}
		}
		return true
	})
	return found
}

// the single *bytes.Buffer parameter of a codec method
func bufParam(fd *ast.FuncDecl) string {
	if fd.Type.Params == nil || len(fd.Type.Params.List) != 1 || len(fd.Type.Params.List[0].Names) != 1 {
		return ""
	}
	if typeStr(fd.Type.Params.List[0].Type) != "*bytes.Buffer" {
		return ""
	}
	return fd.Type.Params.List[0].Names[0].Name
}

func returnsOnlyError(fd *ast.FuncDecl) bool {
	return fd.Type.Results != nil && len(fd.Type.Results.List) == 1 && len(fd.Type.Results.List[0].Names) == 0 && typeStr(fd.Type.Results.List[0].Type) == "error"
}

func isReturnNil(s ast.Stmt) bool {
	r, ok := s.(*ast.ReturnStmt)
	if !ok || len(r.Results) != 1 {
		return false
	}
	id, ok := r.Results[0].(*ast.Ident)
	return ok && id.Name == "nil"
}

func countReturnNil(n ast.Node) int {
	k := 0
	ast.Inspect(n, func(x ast.Node) bool {
		if _, ok := x.(*ast.FuncLit); ok {
			return false
		}
		if s, ok := x.(ast.Stmt); ok && isReturnNil(s) {
			k++
		}
		return true
	})
	return k
}

// N2: constants of the package
func (pi *pkgInfo) constValue(name string) (int, bool) {
	e, ok := pi.consts[name]
	if !ok {
		return 0, false
	}
	return intLit(e)
}

func (pi *pkgInfo) foldConsts(n ast.Node, locals map[string]bool) {
	if len(pi.consts) == 0 {
		return
	}
	var fold func(e ast.Expr) ast.Expr
	fold = func(e ast.Expr) ast.Expr {
		if id, ok := e.(*ast.Ident); ok && !locals[id.Name] {
			if v, ok := pi.constValue(id.Name); ok {
				return &ast.BasicLit{Kind: token.INT, Value: strconv.Itoa(v), ValuePos: id.Pos()}
			}
		}
		return e
	}
	ast.Inspect(n, func(x ast.Node) bool {
		if c, ok := x.(*ast.CallExpr); ok {
			for i := range c.Args {
				c.Args[i] = fold(c.Args[i])
			}
		}
		return true
	})
}

func localNames(fd *ast.FuncDecl) map[string]bool {
	l := map[string]bool{}
	ast.Inspect(fd, func(x ast.Node) bool {
		switch y := x.(type) {
		case *ast.AssignStmt:
			if y.Tok == token.DEFINE {
				for _, e := range y.Lhs {
					if id, ok := e.(*ast.Ident); ok {
						l[id.Name] = true
					}
				}
			}
		case *ast.Field:
			for _, n := range y.Names {
				l[n.Name] = true
			}
		case *ast.ValueSpec:
			for _, n := range y.Names {
				l[n.Name] = true
			}
		}
		return true
	})
	return l
}

// normaliseMethod applies N1..N5 to fd (in place; fd belongs to this run's private parse) and returns the receiver name
func (pi *pkgInfo) normaliseMethod(tyName string, fd *ast.FuncDecl, depth int) {
	if fd == nil || fd.Body == nil {
		return
	}
	recv := "_"
	if len(fd.Recv.List[0].Names) == 1 {
		recv = fd.Recv.List[0].Names[0].Name
	}
	// N1
	if b := bufParam(fd); b != "" && b != "buf" && !usesIdent(fd.Body, "buf") {
		renameIdent(fd.Body, b, "buf")
		fd.Type.Params.List[0].Names[0].Name = "buf"
	}
	// N2
	pi.foldConsts(fd.Body, localNames(fd))
	// N5
	for _, s := range fd.Body.List {
		if is, ok := s.(*ast.IfStmt); ok && is.Init != nil && is.Else == nil {
			if as, ok := is.Init.(*ast.AssignStmt); ok && as.Tok == token.DEFINE && len(as.Lhs) == 1 && len(as.Rhs) == 1 {
				if id, ok := as.Lhs[0].(*ast.Ident); ok && id.Name != "err" && id.Name != "_" && !usesIdent(is, "err") {
					if b, ok := is.Cond.(*ast.BinaryExpr); ok && b.Op == token.NEQ {
						if x, ok := b.X.(*ast.Ident); ok && x.Name == id.Name {
							if y, ok := b.Y.(*ast.Ident); ok && y.Name == "nil" {
								renameIdent(is, id.Name, "err")
							}
						}
					}
				}
			}
		}
	}
	// N4
	if n := len(fd.Body.List); n > 0 && returnsOnlyError(fd) {
		if r, ok := fd.Body.List[n-1].(*ast.ReturnStmt); ok && len(r.Results) == 1 {
			if call, ok := r.Results[0].(*ast.CallExpr); ok && !usesIdent(call, "err") {
				is := &ast.IfStmt{
					If:   r.Pos(),
					Init: &ast.AssignStmt{Lhs: []ast.Expr{ast.NewIdent("err")}, Tok: token.DEFINE, Rhs: []ast.Expr{call}},
					Cond: &ast.BinaryExpr{X: ast.NewIdent("err"), Op: token.NEQ, Y: ast.NewIdent("nil")},
					Body: &ast.BlockStmt{List: []ast.Stmt{&ast.ReturnStmt{Results: []ast.Expr{ast.NewIdent("err")}}}},
				}
				fd.Body.List = append(fd.Body.List[:n-1], is, &ast.ReturnStmt{Results: []ast.Expr{ast.NewIdent("nil")}})
			}
		}
	}
	// N3
	if depth < 3 {
		var out []ast.Stmt
		for _, s := range fd.Body.List {
			inl := pi.inlineHelper(tyName, recv, s, depth)
			if inl != nil {
				out = append(out, inl...)
			} else {
				out = append(out, s)
			}
		}
		fd.Body.List = out
	}
}

func (pi *pkgInfo) inlineHelper(tyName, recv string, s ast.Stmt, depth int) []ast.Stmt {
	call, ok := errIf(s)
	if !ok {
		return nil
	}
	is := s.(*ast.IfStmt)
	// the caller must return the error unchanged
	if r, ok := is.Body.List[0].(*ast.ReturnStmt); !ok || len(r.Results) != 1 {
		return nil
	} else if id, ok := r.Results[0].(*ast.Ident); !ok || id.Name != "err" {
		return nil
	}
	c, ok := call.(*ast.CallExpr)
	if !ok || len(c.Args) != 1 || !isBuf(c.Args[0]) {
		return nil
	}
	sel, ok := c.Fun.(*ast.SelectorExpr)
	if !ok {
		return nil
	}
	if id, ok := sel.X.(*ast.Ident); !ok || id.Name != recv {
		return nil
	}
	name := sel.Sel.Name
	if name == "Encode" || name == "Decode" {
		return nil
	}
	h := pi.methods[tyName][name]
	if h == nil || h.Body == nil || !returnsOnlyError(h) || bufParam(h) == "" || len(h.Recv.List[0].Names) != 1 {
		return nil
	}
	if _, ptr := h.Recv.List[0].Type.(*ast.StarExpr); !ptr {
		return nil // a value receiver works on a copy: not the same thing
	}
	n := len(h.Body.List)
	if n == 0 || !isReturnNil(h.Body.List[n-1]) || countReturnNil(h.Body) != 1 {
		return nil
	}
	pi.normaliseMethod(tyName, h, depth+1)
	n = len(h.Body.List)
	hrecv := h.Recv.List[0].Names[0].Name
	if hrecv != recv && usesIdent(h.Body, recv) {
		return nil
	}
	body := h.Body.List[:n-1]
	for _, st := range body {
		renameIdent(st, hrecv, recv)
	}
	return body
}
