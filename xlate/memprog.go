package main

// memPrograms: the memory behaviour of a reader primitive of codec/binary_codec.go as programs of the `Instr` language of
// lean/FinProto/Alias.lean — ONE PROGRAM PER RETURN STATEMENT that returns a byte slice or string (the instructions executed
// before it, then `ret` of the returned local).  Locals are registers; data flow is followed by variable:
//
//   make([]byte, n)                                   .make r
//   io.ReadFull(buf, x) / buf.Read(x)                 .readFull r_x          (copies INTO x's memory)
//   binary.Read(buf, order, &t)                       .make r_t; .readFull r_t
//   string(e)  /  bytes.Clone(e) / strings.Clone(e)   .toString r r_e        (a copy)
//   e[a:b], bytes.Trim*(e, …), strings.Trim*(e, …)    .sub r r_e             (same memory)
//   buf.Next(n) / buf.Bytes() / buf.AvailableBuffer() .view r                (memory of the buffer)
//   unsafe.String / unsafe.Slice / unsafe.Pointer …   .unsafeString r r_e    (same memory, no copy)
//   append(x, …)                                      .sub r r_x             (may be x's memory) / .make when x is nil
//   copy(dst, src)                                    nothing: dst keeps its own memory
//   call of another function of the package           .make r                (each function returning text / bytes is checked on its own)
//   any other call with a slice / string argument     .sub r r_arg           (conservative: may return its argument)
//
// A list result (`result = append(result, s)`) is represented by one extra program per element source. Whether the
// returned local can point into the buffer is decided in Lean (`Prog.retClean`), not here.

import (
	"fmt"
	"go/ast"
	"go/token"
	"strings"
)

type memTr struct {
	regs  map[string]int
	elems map[string][]int // list variable -> registers of the elements appended to it
	next  int
	ins   []string
	progs [][]string
}

func (m *memTr) fresh() int { r := m.next; m.next++; return r }

func (m *memTr) emit(f string, a ...any) { m.ins = append(m.ins, fmt.Sprintf(f, a...)) }

func isBufCall(e ast.Expr, names ...string) bool {
	c, ok := e.(*ast.CallExpr)
	if !ok {
		return false
	}
	s, ok := c.Fun.(*ast.SelectorExpr)
	if !ok || ident(s.X) != "buf" {
		return false
	}
	for _, n := range names {
		if s.Sel.Name == n {
			return true
		}
	}
	return false
}

// expr returns the register holding the memory e denotes (-1 when e is not a slice / string we follow)
func (m *memTr) expr(e ast.Expr) int {
	switch x := e.(type) {
	case *ast.ParenExpr:
		return m.expr(x.X)
	case *ast.Ident:
		if r, ok := m.regs[x.Name]; ok {
			return r
		}
		return -1
	case *ast.SliceExpr:
		src := m.expr(x.X)
		if src < 0 {
			return -1
		}
		r := m.fresh()
		m.emit(".sub %d %d 0 0", r, src)
		return r
	case *ast.CallExpr:
		if isBufCall(x, "Next", "Bytes", "AvailableBuffer") {
			r := m.fresh()
			m.emit(".view %d 0", r)
			return r
		}
		f := src(x.Fun)
		switch {
		case f == "make":
			if len(x.Args) >= 1 && strings.HasPrefix(src(x.Args[0]), "[]byte") {
				r := m.fresh()
				m.emit(".make %d 0", r)
				return r
			}
			return -1
		case f == "string" || f == "bytes.Clone" || f == "strings.Clone" || f == "[]byte":
			if len(x.Args) == 1 {
				s := m.expr(x.Args[0])
				if s < 0 {
					return -1
				}
				r := m.fresh()
				m.emit(".toString %d %d", r, s)
				return r
			}
		case strings.HasPrefix(f, "bytes.Trim") || strings.HasPrefix(f, "strings.Trim"):
			if len(x.Args) >= 1 {
				s := m.expr(x.Args[0])
				if s < 0 {
					return -1
				}
				r := m.fresh()
				m.emit(".sub %d %d 0 0", r, s)
				return r
			}
		case strings.HasPrefix(f, "unsafe."):
			s := -1
			ast.Inspect(x, func(n ast.Node) bool {
				if id, ok := n.(*ast.Ident); ok && s < 0 {
					if r, ok := m.regs[id.Name]; ok {
						s = r
					}
				}
				if c, ok := n.(*ast.CallExpr); ok && c != x && isBufCall(c, "Next", "Bytes", "AvailableBuffer") && s < 0 {
					s = m.expr(c)
					return false
				}
				return true
			})
			if s < 0 {
				return -1
			}
			r := m.fresh()
			m.emit(".unsafeString %d %d", r, s)
			return r
		case f == "append":
			if len(x.Args) >= 1 {
				s := m.expr(x.Args[0])
				r := m.fresh()
				if s < 0 {
					m.emit(".make %d 0", r)
				} else {
					m.emit(".sub %d %d 0 0", r, s)
				}
				return r
			}
		case codecFuncNames[strings.SplitN(f, "[", 2)[0]]:
			// another function of the package: its own programs are checked separately
			r := m.fresh()
			m.emit(".make %d 0", r)
			return r
		default:
			// unknown call: may hand back (part of) a slice / string argument
			for _, a := range x.Args {
				if s := m.expr(a); s >= 0 {
					r := m.fresh()
					m.emit(".sub %d %d 0 0", r, s)
					return r
				}
			}
		}
		return -1
	case *ast.StarExpr, *ast.UnaryExpr:
		// *(*string)(unsafe.Pointer(&b))
		if strings.Contains(src(e), "unsafe.") {
			s := -1
			ast.Inspect(e, func(n ast.Node) bool {
				if id, ok := n.(*ast.Ident); ok && s < 0 {
					if r, ok := m.regs[id.Name]; ok {
						s = r
					}
				}
				return true
			})
			if s >= 0 {
				r := m.fresh()
				m.emit(".unsafeString %d %d", r, s)
				return r
			}
		}
	}
	return -1
}

func (m *memTr) stmts(list []ast.Stmt) {
	for _, s := range list {
		switch x := s.(type) {
		case *ast.AssignStmt:
			// result = append(result, elem): remember the element's memory as part of the list
			if len(x.Lhs) == 1 && len(x.Rhs) == 1 {
				if c, ok := x.Rhs[0].(*ast.CallExpr); ok && src(c.Fun) == "append" && len(c.Args) == 2 && ident(x.Lhs[0]) != "" && ident(c.Args[0]) == ident(x.Lhs[0]) {
					if _, isBytes := m.regs[ident(x.Lhs[0])]; !isBytes {
						if r := m.expr(c.Args[1]); r >= 0 {
							m.elems[ident(x.Lhs[0])] = append(m.elems[ident(x.Lhs[0])], r)
						}
						continue
					}
				}
			}
			// x, err := CALL / x := E
			if len(x.Rhs) == 1 {
				if c, ok := x.Rhs[0].(*ast.CallExpr); ok && (src(c.Fun) == "io.ReadFull" || src(c.Fun) == "buf.Read") && len(c.Args) >= 1 {
					if r := m.expr(c.Args[len(c.Args)-1]); r >= 0 {
						m.emit(".readFull %d", r)
					}
					continue
				}
				r := m.expr(x.Rhs[0])
				if r >= 0 && len(x.Lhs) >= 1 && ident(x.Lhs[0]) != "" && ident(x.Lhs[0]) != "_" {
					m.regs[ident(x.Lhs[0])] = r
				}
				continue
			}
			for i := range x.Lhs {
				if i < len(x.Rhs) {
					if r := m.expr(x.Rhs[i]); r >= 0 && ident(x.Lhs[i]) != "" && ident(x.Lhs[i]) != "_" {
						m.regs[ident(x.Lhs[i])] = r
					}
				}
			}
		case *ast.DeclStmt:
			if gd, ok := x.Decl.(*ast.GenDecl); ok && gd.Tok == token.VAR {
				for _, sp := range gd.Specs {
					vs := sp.(*ast.ValueSpec)
					for i, n := range vs.Names {
						if i < len(vs.Values) {
							if r := m.expr(vs.Values[i]); r >= 0 {
								m.regs[n.Name] = r
							}
						}
					}
				}
			}
		case *ast.ExprStmt:
			if c, ok := x.X.(*ast.CallExpr); ok {
				switch src(c.Fun) {
				case "io.ReadFull", "buf.Read":
					if len(c.Args) >= 1 {
						if r := m.expr(c.Args[len(c.Args)-1]); r >= 0 {
							m.emit(".readFull %d", r)
						}
					}
				case "copy":
				default:
					m.expr(c)
				}
			}
		case *ast.IfStmt:
			if x.Init != nil {
				m.stmts([]ast.Stmt{x.Init})
			}
			m.scanBinaryRead(x.Cond)
			m.stmts(x.Body.List)
			if x.Else != nil {
				m.stmts([]ast.Stmt{x.Else})
			}
		case *ast.BlockStmt:
			m.stmts(x.List)
		case *ast.ForStmt:
			if x.Init != nil {
				m.stmts([]ast.Stmt{x.Init})
			}
			m.stmts(x.Body.List)
		case *ast.RangeStmt:
			m.stmts(x.Body.List)
		case *ast.ReturnStmt:
			if len(x.Results) == 0 {
				continue
			}
			var rets []int
			if id := ident(x.Results[0]); id != "" {
				rets = append(rets, m.elems[id]...)
			}
			if r := m.expr(x.Results[0]); r >= 0 {
				rets = append(rets, r)
			}
			for _, r := range rets {
				p := append(append([]string{}, m.ins...), fmt.Sprintf(".ret %d", r))
				m.progs = append(m.progs, p)
			}
		}
	}
}

// `binary.Read(buf, order, &t)` anywhere in an expression / statement
func (m *memTr) scanBinaryRead(n ast.Node) {
	ast.Inspect(n, func(n ast.Node) bool {
		if c, ok := n.(*ast.CallExpr); ok && src(c.Fun) == "binary.Read" && len(c.Args) == 3 {
			r := m.fresh()
			m.emit(".make %d 0", r)
			m.emit(".readFull %d", r)
			if u, ok := c.Args[2].(*ast.UnaryExpr); ok && ident(u.X) != "" {
				m.regs[ident(u.X)] = r
			}
		}
		return true
	})
}

func memPrograms(fd *ast.FuncDecl) [][]string {
	m := &memTr{regs: map[string]int{}, elems: map[string][]int{}}
	// binary.Read calls are found inside if-inits and assignments as well
	var pre func(list []ast.Stmt)
	_ = pre
	m.stmtsWithBinaryRead(fd.Body.List)
	if len(m.progs) == 0 {
		// nothing but numbers returned: the value read by binary.Read lives in a local of the call
		r := 0
		if m.next == 0 {
			m.emit(".make 0 0")
		} else {
			r = m.next - 1
		}
		m.progs = [][]string{append(append([]string{}, m.ins...), fmt.Sprintf(".ret %d", r))}
	}
	return m.progs
}

// stmts, with binary.Read recognised wherever it is called
func (m *memTr) stmtsWithBinaryRead(list []ast.Stmt) {
	for _, s := range list {
		switch x := s.(type) {
		case *ast.IfStmt:
			if x.Init != nil {
				m.scanBinaryRead(x.Init)
				if as, ok := x.Init.(*ast.AssignStmt); ok {
					m.stmts([]ast.Stmt{as})
				}
			}
			m.stmtsWithBinaryRead(x.Body.List)
			if eb, ok := x.Else.(*ast.BlockStmt); ok {
				m.stmtsWithBinaryRead(eb.List)
			} else if x.Else != nil {
				m.stmtsWithBinaryRead([]ast.Stmt{x.Else})
			}
		case *ast.ForStmt:
			if x.Init != nil {
				m.stmts([]ast.Stmt{x.Init})
			}
			m.stmtsWithBinaryRead(x.Body.List)
		case *ast.RangeStmt:
			m.stmtsWithBinaryRead(x.Body.List)
		case *ast.BlockStmt:
			m.stmtsWithBinaryRead(x.List)
		default:
			if _, isRet := s.(*ast.ReturnStmt); !isRet {
				m.scanBinaryRead(s)
			}
			m.stmts([]ast.Stmt{s})
		}
	}
}
