package main

// Path-wise execution of a registry function, used when the statement-level extraction of lockprog.go does not recognise a
// body.  The function is run twice, once for "the name is in the map at the time of the load" and once for "it is not";
// each run records the lock operations and map accesses in order and the value returned.  The two traces are then mapped
// back onto the statement language of lean/FinProto/LockProg.lean:
//
//   exists: [load]            -> false          not exists: [load, store] -> true        ==>  ifExistsRetFalse, store, retTrue
//   exists: [load] -> (loaded, true)            not exists: [load] -> (nil, false)      ==>  ifExistsRetLoaded, retNone
//   no load, the same accesses and result on both paths                                 ==>  the accesses, then the result
//
// preceded by `lock, deferUnlock` (or `rlock, deferRUnlock`) when, on BOTH paths, the first operation is the lock, every
// map access happens while it is held, and the matching unlock (explicit or deferred) is the last operation.  Anything
// else - a second load, an access outside the lock, a path that does not unlock, a value it cannot follow - is `opaque`.

import (
	"go/ast"
	"go/token"
)

type lval struct {
	k string // bool exists notexists loaded nil svc unit
	b bool
}

type lpath struct {
	le     *lockEnv
	exists bool
	env    map[string]lval
	ops    []string
	defers []string
	loads  int
	ret    []lval
	done   bool
	bad    bool
}

func (p *lpath) eval(e ast.Expr) lval {
	switch x := e.(type) {
	case *ast.ParenExpr:
		return p.eval(x.X)
	case *ast.Ident:
		switch x.Name {
		case "true":
			return lval{k: "bool", b: true}
		case "false":
			return lval{k: "bool", b: false}
		case "nil":
			return lval{k: "nil"}
		}
		if v, ok := p.env[x.Name]; ok {
			return v
		}
		if x.Name == p.le.svc && p.le.svc != "" {
			return lval{k: "svc"}
		}
	case *ast.UnaryExpr:
		if x.Op == token.NOT {
			v := p.eval(x.X)
			if v.k == "bool" {
				return lval{k: "bool", b: !v.b}
			}
		}
	}
	p.bad = true
	return lval{k: "?"}
}

// v, ok := cache[key]
func (p *lpath) load(as *ast.AssignStmt) bool {
	if as.Tok != token.DEFINE || len(as.Lhs) != 2 || len(as.Rhs) != 1 || !p.le.isCacheAt(as.Rhs[0]) {
		return false
	}
	p.loads++
	if p.loads > 1 {
		p.bad = true
	}
	p.ops = append(p.ops, "load")
	if n := ident(as.Lhs[0]); n != "_" && n != "" {
		if p.exists {
			p.env[n] = lval{k: "loaded"}
		} else {
			p.env[n] = lval{k: "nil"}
		}
	}
	if n := ident(as.Lhs[1]); n != "_" && n != "" {
		p.env[n] = lval{k: "bool", b: p.exists}
	}
	return true
}

func (p *lpath) exec(stmts []ast.Stmt) {
	for _, s := range stmts {
		if p.done || p.bad {
			return
		}
		switch x := s.(type) {
		case *ast.ExprStmt:
			switch p.le.muCall(x.X) {
			case "Lock":
				p.ops = append(p.ops, "lock")
				continue
			case "RLock":
				p.ops = append(p.ops, "rlock")
				continue
			case "Unlock":
				p.ops = append(p.ops, "unlock")
				continue
			case "RUnlock":
				p.ops = append(p.ops, "runlock")
				continue
			}
			if c, ok := x.X.(*ast.CallExpr); ok && ident(c.Fun) == "delete" && len(c.Args) == 2 && p.le.isField(c.Args[0], "cache") && p.le.isKey(c.Args[1]) && p.le.key != "" {
				p.ops = append(p.ops, "delete")
				continue
			}
			p.bad = true
		case *ast.DeferStmt:
			switch p.le.muCall(x.Call) {
			case "Unlock":
				p.defers = append(p.defers, "unlock")
				p.ops = append(p.ops, "deferUnlock")
			case "RUnlock":
				p.defers = append(p.defers, "runlock")
				p.ops = append(p.ops, "deferRUnlock")
			default:
				p.bad = true
			}
		case *ast.AssignStmt:
			switch {
			case x.Tok == token.DEFINE && len(x.Lhs) == 1 && len(x.Rhs) == 1 && p.le.isCtx(x.Rhs[0]) && ident(x.Lhs[0]) != "":
				p.le.ctx[ident(x.Lhs[0])] = true
			case x.Tok == token.DEFINE && len(x.Lhs) == 1 && len(x.Rhs) == 1 && isEmptyMapMake(x.Rhs[0]) && ident(x.Lhs[0]) != "":
				p.le.freshMap[ident(x.Lhs[0])] = true
			case x.Tok == token.ASSIGN && len(x.Lhs) == 1 && len(x.Rhs) == 1 && p.le.isField(x.Lhs[0], "cache") && (isEmptyMapMake(x.Rhs[0]) || p.le.freshMap[ident(x.Rhs[0])]):
				p.ops = append(p.ops, "replace")
			case x.Tok == token.ASSIGN && len(x.Lhs) == 1 && len(x.Rhs) == 1 && p.le.isCacheAt(x.Lhs[0]) && p.le.svc != "" && ident(x.Rhs[0]) == p.le.svc:
				p.ops = append(p.ops, "store")
			case p.load(x):
			case x.Tok == token.DEFINE && len(x.Lhs) == 1 && len(x.Rhs) == 1 && ident(x.Lhs[0]) != "":
				v := p.eval(x.Rhs[0]) // a local copy of a value already held
				p.env[ident(x.Lhs[0])] = v
			default:
				p.bad = true
			}
		case *ast.IfStmt:
			if x.Init != nil {
				as, ok := x.Init.(*ast.AssignStmt)
				if !ok || !p.load(as) {
					p.bad = true
					return
				}
			}
			c := p.eval(x.Cond)
			if c.k != "bool" {
				p.bad = true
				return
			}
			if c.b {
				p.exec(x.Body.List)
			} else if x.Else != nil {
				p.exec([]ast.Stmt{x.Else})
			}
		case *ast.BlockStmt:
			p.exec(x.List)
		case *ast.ReturnStmt:
			for _, e := range x.Results {
				p.ret = append(p.ret, p.eval(e))
			}
			p.done = true
		default:
			p.bad = true
		}
	}
}

func lockSym(fd *ast.FuncDecl, mk func() (*lockEnv, []ast.Stmt, bool)) []string {
	var paths [2]*lpath
	for i, ex := range []bool{true, false} {
		le, body, ok := mk()
		if !ok {
			return []string{"opaque"}
		}
		p := &lpath{le: le, exists: ex, env: map[string]lval{}}
		p.exec(body)
		if p.bad {
			return []string{"opaque"}
		}
		for j := len(p.defers) - 1; j >= 0; j-- {
			p.ops = append(p.ops, p.defers[j])
		}
		paths[i] = p
	}
	// lock discipline, the same on both paths
	kind := ""
	var acc [2][]string
	for i, p := range paths {
		if len(p.ops) < 2 {
			return []string{"opaque"}
		}
		first, last := p.ops[0], p.ops[len(p.ops)-1]
		switch {
		case first == "lock" && last == "unlock":
			if kind != "" && kind != "lock" {
				return []string{"opaque"}
			}
			kind = "lock"
		case first == "rlock" && last == "runlock":
			if kind != "" && kind != "rlock" {
				return []string{"opaque"}
			}
			kind = "rlock"
		default:
			return []string{"opaque"}
		}
		for _, o := range p.ops[1 : len(p.ops)-1] {
			switch o {
			case "deferUnlock", "deferRUnlock":
				if (o == "deferUnlock") != (kind == "lock") {
					return []string{"opaque"}
				}
			case "load", "store", "delete", "replace":
				acc[i] = append(acc[i], o)
			default:
				return []string{"opaque"} // a second lock operation in the middle
			}
		}
	}
	out := []string{"lock", "deferUnlock"}
	if kind == "rlock" {
		out = []string{"rlock", "deferRUnlock"}
	}
	retTok := func(r []lval) (string, bool) {
		switch {
		case len(r) == 0:
			return "", true
		case len(r) == 1 && r[0].k == "bool" && r[0].b:
			return "retTrue", true
		case len(r) == 1 && r[0].k == "bool" && !r[0].b:
			return "retFalse", true
		case len(r) == 2 && r[0].k == "nil" && r[1].k == "bool" && !r[1].b:
			return "retNone", true
		}
		return "", false
	}
	same := func(a, b []string) bool {
		if len(a) != len(b) {
			return false
		}
		for i := range a {
			if a[i] != b[i] {
				return false
			}
		}
		return true
	}
	ex, nx := paths[0], paths[1]
	if len(acc[0]) > 0 && acc[0][0] == "load" && len(acc[1]) > 0 && acc[1][0] == "load" {
		// exists path: the load only, then `false` or the loaded pair
		if len(acc[0]) != 1 {
			return []string{"opaque"}
		}
		switch {
		case len(ex.ret) == 1 && ex.ret[0].k == "bool" && !ex.ret[0].b:
			out = append(out, "ifExistsRetFalse")
		case len(ex.ret) == 2 && ex.ret[0].k == "loaded" && ex.ret[1].k == "bool" && ex.ret[1].b:
			out = append(out, "ifExistsRetLoaded")
		default:
			return []string{"opaque"}
		}
		out = append(out, acc[1][1:]...)
		t, ok := retTok(nx.ret)
		if !ok {
			return []string{"opaque"}
		}
		if t != "" {
			out = append(out, t)
		}
		return out
	}
	for _, a := range acc {
		for _, o := range a {
			if o == "load" {
				return []string{"opaque"}
			}
		}
	}
	t0, ok0 := retTok(ex.ret)
	t1, ok1 := retTok(nx.ret)
	if !same(acc[0], acc[1]) || !ok0 || !ok1 || t0 != t1 {
		return []string{"opaque"}
	}
	out = append(out, acc[0]...)
	if t0 != "" {
		out = append(out, t0)
	}
	return out
}
