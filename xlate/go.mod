module xlate

go 1.21
