package main

import (
	"go/ast"
	"regexp"
	"sort"
	"strconv"
	"strings"
)

// Template translation of codec/binary_codec.go: every primitive's WHOLE body (normalised source text) is matched against
// the template of its kind; the holes (byte orders, helper called) become the arguments of a `PrimDef` constructor of
// lean/FinProto/CodecProg.lean. A body that matches no template is `.unknown` (left to the correspondence check).

type primTemplate struct {
	re   *regexp.Regexp
	lean func(m []string) string
}

func ord(s string) string {
	if s == "LittleEndian" {
		return ".le"
	}
	return ".be"
}

func helperOrd(name string) string {
	if strings.HasSuffix(name, "LE") {
		return ".le"
	}
	return ".be"
}

func q(s string) string { return regexp.QuoteMeta(s) }

const O = `(BigEndian|LittleEndian)`

var primTemplates = []primTemplate{
	{regexp.MustCompile(`^\{ return binary\.Write\(buf, binary\.` + O + `, &v\) \}$`), func(m []string) string { return ".writeScalar " + ord(m[1]) }},
	{regexp.MustCompile(`^\{ var v T err := binary\.Read\(buf, binary\.` + O + `, &v\) return v, err \}$`), func(m []string) string { return ".readScalar " + ord(m[1]) }},
	{regexp.MustCompile(`^` + q(`{ if uint64(n) > uint64(^T(0)) { return fmt.Errorf(`) + `[^{}]*` + q(`) } return binary.Write(buf, order, T(n)) }`) + `$`), func(m []string) string { return ".writeLen" }},
	{regexp.MustCompile(`^\{ if err := writeLen\[T\]\(buf, binary\.` + O + `, len\(values\)\); err != nil \{ return err \} for _, s := range values \{ if err := (WriteBasicType|WriteBasicTypeLE)\(buf, s\); err != nil \{ return err \} \} return nil \}$`),
		func(m []string) string { return ".writeNums " + ord(m[1]) + " " + helperOrd(m[2]) }},
	{regexp.MustCompile(`^\{ var t T if err := binary\.Read\(buf, binary\.` + O + `, &t\); err != nil \{ return nil, err \} count := int\(t\) result := make\(\[\]K, 0, min\(count, buf\.Len\(\)\)\) var err error for i := 0; i < count; i\+\+ \{ v, e := (ReadBasicType|ReadBasicTypeLE)\[K\]\(buf\) if e != nil \{ return nil, e \} result = append\(result, v\) \} return result, err \}$`),
		func(m []string) string { return ".readNums " + ord(m[1]) + " " + helperOrd(m[2]) }},
	{regexp.MustCompile(`^\{ if err := writeLen\[T\]\(buf, binary\.` + O + `, len\(s\)\); err != nil \{ return err \} if _, err := buf\.WriteString\(s\); err != nil \{ return err \} return nil \}$`),
		func(m []string) string { return ".writeVstr " + ord(m[1]) }},
	{regexp.MustCompile(`^\{ var t T if err := binary\.Read\(buf, binary\.` + O + `, &t\); err != nil \{ return "", err \} length := int\(t\) if length > buf\.Len\(\) \{ return "", io\.ErrUnexpectedEOF \} strBytes := make\(\[\]byte, length\) _, err := io\.ReadFull\(buf, strBytes\) return string\(strBytes\), err \}$`),
		func(m []string) string { return ".readVstr " + ord(m[1]) }},
	{regexp.MustCompile(`^\{ return (WriteFixedStringWithPadding|ReadFixedStringTrimPadding)\(buf, (s, )?fixedLen, ' ', false\) \}$`),
		func(m []string) string {
			if strings.HasPrefix(m[1], "Write") {
				return ".writeFixedDefault"
			}
			return ".readFixedDefault"
		}},
	{regexp.MustCompile(`^` + q(`{ data := []byte(s) if len(data) > fixedLen { if _, err := buf.Write(data[:fixedLen]); err != nil { return err } } else { if padLeft { if err := Padding(buf, fixedLen-len(data), padChar); err != nil { return err } } if _, err := buf.Write(data); err != nil { return err } if !padLeft { if err := Padding(buf, fixedLen-len(data), padChar); err != nil { return err } } } return nil }`) + `$`),
		func(m []string) string { return ".writeFixed" }},
	{regexp.MustCompile(`^` + q(`{ padCharBytes := bytes.Repeat([]byte{byte(padChar)}, paddedLen) if _, err := buf.Write(padCharBytes); err != nil { return err } return nil }`) + `$`),
		func(m []string) string { return ".padding" }},
	{regexp.MustCompile(`^` + q(`{ strBytes := make([]byte, fixedLen) _, err := io.ReadFull(buf, strBytes) pad := byte(padChar) if padLeft { for len(strBytes) > 0 && strBytes[0] == pad { strBytes = strBytes[1:] } return string(strBytes), err } for len(strBytes) > 0 && strBytes[len(strBytes)-1] == pad { strBytes = strBytes[:len(strBytes)-1] } return string(strBytes), err }`) + `$`),
		func(m []string) string { return ".readFixed" }},
	{regexp.MustCompile(`^\{ return (WriteFixedStringListWithPadding|WriteFixedStringListWithPaddingLE|ReadFixedStringListTrimPadding|ReadFixedStringListTrimPaddingLE)\[T\]\(buf, (values, )?fixedLen, ' ', false\) \}$`),
		func(m []string) string {
			if strings.HasPrefix(m[1], "Write") {
				return ".writeFixedsDefault " + helperOrd(m[1])
			}
			return ".readFixedsDefault " + helperOrd(m[1])
		}},
	{regexp.MustCompile(`^\{ if err := writeLen\[T\]\(buf, binary\.` + O + `, len\(values\)\); err != nil \{ return err \} for _, s := range values \{ err := WriteFixedStringWithPadding\(buf, s, fixedLen, padChar, padLeft\) if err != nil \{ return nil \} \} return nil \}$`),
		func(m []string) string { return ".writeFixeds " + ord(m[1]) }},
	{regexp.MustCompile(`^\{ var t T if err := binary\.Read\(buf, binary\.` + O + `, &t\); err != nil \{ return nil, err \} count := int\(t\) result := make\(\[\]string, 0, min\(count, buf\.Len\(\)\)\) var err error for i := 0; i < count; i\+\+ \{ str, e := ReadFixedStringTrimPadding\(buf, fixedLen, padChar, padLeft\) if e != nil \{ return nil, e \} result = append\(result, str\) \} return result, err \}$`),
		func(m []string) string { return ".readFixeds " + ord(m[1]) }},
	{regexp.MustCompile(`^\{ if err := writeLen\[T\]\(buf, binary\.` + O + `, len\(values\)\); err != nil \{ return err \} for _, s := range values \{ if err := writeLen\[K\]\(buf, binary\.` + O + `, len\(s\)\); err != nil \{ return err \} buf\.WriteString\(s\) \} return nil \}$`),
		func(m []string) string { return ".writeVstrs " + ord(m[1]) + " " + ord(m[2]) }},
	{regexp.MustCompile(`^\{ var t T if err := binary\.Read\(buf, binary\.` + O + `, &t\); err != nil \{ return nil, err \} count := int\(t\) result := make\(\[\]string, 0, min\(count, buf\.Len\(\)\)\) for i := 0; i < count; i\+\+ \{ var k K if err := binary\.Read\(buf, binary\.` + O + `, &k\); err != nil \{ return nil, err \} length := int\(k\) if length > buf\.Len\(\) \{ return nil, errors\.New\("[^"]*"\) \} strBytes := make\(\[\]byte, length\) n, err := buf\.Read\(strBytes\) if err != nil \|\| n != length \{ return nil, errors\.New\("[^"]*"\) \} result = append\(result, string\(strBytes\)\) \} return result, nil \}$`),
		func(m []string) string { return ".readVstrs " + ord(m[1]) + " " + ord(m[2]) }},
	{regexp.MustCompile(`^\{ if err := writeLen\[T\]\(buf, binary\.` + O + `, len\(values\)\); err != nil \{ return err \} for _, s := range values \{ if e := s\.Encode\(buf\); e != nil \{ return e \} \} return nil \}$`),
		func(m []string) string { return ".writeObjs " + ord(m[1]) }},
	{regexp.MustCompile(`^\{ var t T if err := binary\.Read\(buf, binary\.` + O + `, &t\); err != nil \{ return nil, err \} count := int\(t\) result := make\(\[\]K, 0, min\(count, buf\.Len\(\)\)\) for i := 0; i < count; i\+\+ \{ k := newFn\(\) if e := k\.Decode\(buf\); e != nil \{ return result, e \} result = append\(result, k\) \} return result, nil \}$`),
		func(m []string) string { return ".readObjs " + ord(m[1]) }},
}

// the primitives, in the fixed order of `CodecProg.primNames`
var primNames = []string{
	"WriteBasicType", "WriteBasicTypeLE", "ReadBasicType", "ReadBasicTypeLE", "writeLen",
	"WriteBasicTypeList", "WriteBasicTypeListLE", "ReadBasicTypeList", "ReadBasicTypeListLE",
	"WriteString", "WriteStringLE", "ReadString", "ReadStringLE",
	"WriteFixedString", "WriteFixedStringWithPadding", "Padding", "ReadFixedString", "ReadFixedStringTrimPadding",
	"WriteFixedStringList", "WriteFixedStringListWithPadding", "WriteFixedStringListLE", "WriteFixedStringListWithPaddingLE",
	"ReadFixedStringList", "ReadFixedStringListTrimPadding", "ReadFixedStringListLE", "ReadFixedStringListTrimPaddingLE",
	"WriteStringList", "WriteStringListLE", "ReadStringList", "ReadStringListLE",
	"WriteObjectList", "WriteObjectListLE", "ReadObjectList", "ReadObjectListLE",
}

func primDefs(root string) ([]string, []string) {
	bodies := map[string]string{}
	var extra []string
	for _, af := range parseDir(root + "/codec") {
		for _, d := range af.Decls {
			if fd, ok := d.(*ast.FuncDecl); ok && fd.Recv == nil && fd.Body != nil {
				bodies[fd.Name.Name] = src2(fd.Body)
			}
		}
	}
	known := map[string]bool{}
	out := make([]string, len(primNames))
	for i, n := range primNames {
		known[n] = true
		out[i] = ".unknown"
		b, ok := bodies[n]
		if !ok {
			out[i] = ".missing"
			continue
		}
		for _, t := range primTemplates {
			if m := t.re.FindStringSubmatch(b); m != nil {
				out[i] = t.lean(m)
				break
			}
		}
	}
	// other package-level functions of the codec package that are neither primitives nor the registry / services
	for n := range bodies {
		if !known[n] && n != "init" && n != "Registry" && n != "Get" && n != "Remove" && n != "Clear" {
			extra = append(extra, n)
		}
	}
	sort.Strings(extra)
	return out, extra
}

// ---- checksum services: template translation of the four Calc bodies --------------------------------------------------

var cksTemplates = []primTemplate{
	{regexp.MustCompile(`^\{ var crc uint16 = (0x[0-9A-Fa-f]+|\d+) for _, b := range data\.Bytes\(\) \{ crc \^= uint16\(b\) for i := 0; i < 8; i\+\+ \{ if crc&0x0001 != 0 \{ crc = \(crc >> 1\) \^ (0x[0-9A-Fa-f]+|\d+) \} else \{ crc >>= 1 \} \} \} return crc \}$`),
		func(m []string) string { return ".crc16Reflected " + num(m[1]) + " " + num(m[2]) }},
	{regexp.MustCompile(`^\{ return crc32\.ChecksumIEEE\(data\.Bytes\(\)\) \}$`), func(m []string) string { return ".crc32IEEE" }},
	{regexp.MustCompile(`^\{ var checksum uint32 for _, b := range data\.Bytes\(\) \{ checksum = \(checksum \+ uint32\(b\)\) & (0x[0-9A-Fa-f]+|\d+) \} return checksum \}$`),
		func(m []string) string { return ".sumMasked " + num(m[1]) }},
	{regexp.MustCompile(`^\{ var checksum uint32 for _, b := range data\.Bytes\(\) \{ checksum \+= uint32\(b\) \} return int32\(checksum % (0x[0-9A-Fa-f]+|\d+)\) \}$`),
		func(m []string) string { return ".sumThenMod " + num(m[1]) }},
}

func num(s string) string {
	v, err := strconv.ParseUint(s, 0, 64)
	if err != nil {
		return "0"
	}
	return strconv.FormatUint(v, 10)
}

var cksNames = []string{"Crc16ChecksumService", "Crc32ChecksumService", "SseBinChecksumService", "SzseBinChecksumService"}

func cksDefs(root string) []string {
	bodies := map[string]string{}
	for _, af := range parseDir(root + "/codec") {
		for _, d := range af.Decls {
			if fd, ok := d.(*ast.FuncDecl); ok && fd.Recv != nil && fd.Body != nil && fd.Name.Name == "Calc" {
				bodies[strings.TrimPrefix(typeStr(fd.Recv.List[0].Type), "*")] = src2(fd.Body)
			}
		}
	}
	out := make([]string, len(cksNames))
	for i, n := range cksNames {
		out[i] = ".unknown"
		if b, ok := bodies[n]; ok {
			for _, t := range cksTemplates {
				if m := t.re.FindStringSubmatch(b); m != nil {
					out[i] = t.lean(m)
					break
				}
			}
		}
	}
	return out
}
