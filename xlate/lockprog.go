package main

// Structural (name-independent) extraction of the registry functions' bodies into the `Stmt` language of
// lean/FinProto/LockProg.lean.  Behaviour-preserving source shapes are NORMALISED onto the language's statements:
//
//   - a wrapper that only delegates to a method of the context object is replaced by that method's body;
//   - local aliases of the context object (`ctx := checksumServiceContext`, a method receiver) are resolved;
//   - the type-assertion guard of Registry may be an if-with-init, an early return (`x, ok := s.(T); if !ok { return false }`)
//     or a type switch with a `default: return false`;
//   - an explicit Unlock / RUnlock that is the last thing a function does before returning values it already holds is the
//     deferred unlock (same order of map accesses, unlock and return);
//   - `v, ok := cache[k]` ... `return v, ok` is `if v, ok := cache[k]; ok { return v, ok }; return nil, false`
//     (a map miss yields the zero value and false);
//   - `_, ok := cache[k]; if !ok { cache[k] = s }; return !ok` is `if _, ok := cache[k]; ok { return false }; cache[k] = s; return true`.
//
// Anything else is "opaque": the Lean check `wellBracketed` rejects the program and the property is reported as no longer
// shown (the concurrent correspondence run still searches for a failing history).

import (
	"go/ast"
	"go/token"
	"strings"
)

// methods of the codec package by bare name (filled by a pre-pass), for delegation wrappers
var codecMethods = map[string]*ast.FuncDecl{}

// names of the package-level functions of the codec package
var codecFuncNames = map[string]bool{}

const ctxGlobal = "checksumServiceContext"

type lockEnv struct {
	ctx      map[string]bool // identifiers denoting the context object
	svc      string          // the `service any` parameter of Registry
	key      string          // the `algorithm string` parameter of Get / Remove
	named    map[string]bool // identifiers bound to the service asserted to have Algorithm()
	freshMap map[string]bool // locals holding a freshly made empty map
	loadV    string          // locals bound by a plain `v, ok := cache[k]`
	loadOK   string
}

func ident(e ast.Expr) string {
	if id, ok := e.(*ast.Ident); ok {
		return id.Name
	}
	return ""
}

func (le *lockEnv) isCtx(e ast.Expr) bool { return le.ctx[ident(e)] }

func (le *lockEnv) isField(e ast.Expr, f string) bool {
	s, ok := e.(*ast.SelectorExpr)
	return ok && s.Sel.Name == f && le.isCtx(s.X)
}

// mu.<name>() on the context's mutex
func (le *lockEnv) muCall(e ast.Expr) string {
	c, ok := e.(*ast.CallExpr)
	if !ok || len(c.Args) != 0 {
		return ""
	}
	s, ok := c.Fun.(*ast.SelectorExpr)
	if !ok || !le.isField(s.X, "mu") {
		return ""
	}
	return s.Sel.Name
}

// the key expression of this call: `<named>.Algorithm()` (Registry) or the name parameter (Get / Remove)
func (le *lockEnv) isKey(e ast.Expr) bool {
	if le.key != "" && ident(e) == le.key {
		return true
	}
	if c, ok := e.(*ast.CallExpr); ok && len(c.Args) == 0 {
		if s, ok := c.Fun.(*ast.SelectorExpr); ok && s.Sel.Name == "Algorithm" && le.named[ident(s.X)] {
			return true
		}
	}
	return false
}

// cache[key]
func (le *lockEnv) isCacheAt(e ast.Expr) bool {
	ix, ok := e.(*ast.IndexExpr)
	return ok && le.isField(ix.X, "cache") && le.isKey(ix.Index)
}

func isEmptyMapMake(e ast.Expr) bool {
	c, ok := e.(*ast.CallExpr)
	if !ok || ident(c.Fun) != "make" || len(c.Args) != 1 {
		return false
	}
	_, ok = c.Args[0].(*ast.MapType)
	return ok
}

func isBoolLit(e ast.Expr, v string) bool { return ident(e) == v }

func hasAlgorithm(t ast.Expr) bool {
	switch x := t.(type) {
	case *ast.InterfaceType:
		for _, m := range x.Methods.List {
			for _, n := range m.Names {
				if n.Name == "Algorithm" {
					return true
				}
			}
		}
		return false
	case *ast.Ident:
		// a named interface of the package: accept when it declares Algorithm()
		if ts := codecTypeSpecs[x.Name]; ts != nil {
			return hasAlgorithm(ts.Type)
		}
	}
	return false
}

var codecTypeSpecs = map[string]*ast.TypeSpec{}

func lockStmts(fd *ast.FuncDecl) []string {
	le, body := lockPrepare(fd)
	toks, ok := le.block(body, true)
	if ok {
		toks = normaliseUnlock(toks)
	} else {
		toks = append(toks, "opaque")
	}
	for _, t := range toks {
		if t == "opaque" {
			// not one of the known statement shapes: execute the body path by path instead
			sym := lockSym(fd, func() (*lockEnv, []ast.Stmt, bool) {
				le, body := lockPrepare(fd)
				if inner, g := le.guard(body); g {
					body = inner
				} else if le.svc != "" {
					return nil, nil, false // Registry without a recognisable type-assertion guard
				}
				return le, body, true
			})
			if len(sym) > 0 && sym[len(sym)-1] != "opaque" {
				return sym
			}
			return toks
		}
	}
	return toks
}

// lockPrepare resolves delegation wrappers and the parameters' roles; it returns a fresh environment and the body to read
func lockPrepare(fd *ast.FuncDecl) (*lockEnv, []ast.Stmt) {
	le := &lockEnv{ctx: map[string]bool{ctxGlobal: true}, named: map[string]bool{}, freshMap: map[string]bool{}}
	body := fd.Body.List
	params := func(f *ast.FuncDecl) []string {
		var ps []string
		for _, p := range f.Type.Params.List {
			for _, n := range p.Names {
				ps = append(ps, n.Name)
			}
		}
		return ps
	}
	ps := params(fd)
	// delegation wrapper: `return ctx.method(args...)` / `ctx.method(args...)` with the parameters passed through in order
	if len(body) == 1 {
		var call *ast.CallExpr
		switch s := body[0].(type) {
		case *ast.ReturnStmt:
			if len(s.Results) == 1 {
				call, _ = s.Results[0].(*ast.CallExpr)
			}
		case *ast.ExprStmt:
			call, _ = s.X.(*ast.CallExpr)
		}
		if call != nil {
			if sel, ok := call.Fun.(*ast.SelectorExpr); ok && ident(sel.X) == ctxGlobal {
				if m := codecMethods[sel.Sel.Name]; m != nil && m.Recv != nil && len(m.Recv.List) == 1 && len(m.Recv.List[0].Names) == 1 {
					same := len(call.Args) == len(ps)
					for i := range call.Args {
						if same && ident(call.Args[i]) != ps[i] {
							same = false
						}
					}
					if same && len(params(m)) == len(ps) {
						le.ctx[m.Recv.List[0].Names[0].Name] = true
						body = m.Body.List
						ps = params(m)
					}
				}
			}
		}
	}
	switch fd.Name.Name {
	case "Registry":
		if len(ps) == 1 {
			le.svc = ps[0]
		}
	case "Get", "Remove":
		if len(ps) == 1 {
			le.key = ps[0]
		}
	}
	return le, body
}

// the type-assertion guard of Registry, in its three spellings; returns the guarded statements
func (le *lockEnv) guard(stmts []ast.Stmt) ([]ast.Stmt, bool) {
	if le.svc == "" || len(stmts) == 0 {
		return nil, false
	}
	assertOf := func(s ast.Stmt) (name, okName string, found bool) {
		as, ok := s.(*ast.AssignStmt)
		if !ok || as.Tok != token.DEFINE || len(as.Lhs) != 2 || len(as.Rhs) != 1 {
			return
		}
		ta, ok := as.Rhs[0].(*ast.TypeAssertExpr)
		if !ok || ident(ta.X) != le.svc || ta.Type == nil || !hasAlgorithm(ta.Type) {
			return
		}
		return ident(as.Lhs[0]), ident(as.Lhs[1]), ident(as.Lhs[0]) != "" && ident(as.Lhs[1]) != ""
	}
	isRetFalse := func(s ast.Stmt) bool {
		r, ok := s.(*ast.ReturnStmt)
		return ok && len(r.Results) == 1 && isBoolLit(r.Results[0], "false")
	}
	// if x, ok := service.(T); ok { BODY }; return false
	if is, ok := stmts[0].(*ast.IfStmt); ok && is.Init != nil && is.Else == nil && len(stmts) == 2 && isRetFalse(stmts[1]) {
		if n, okn, found := assertOf(is.Init); found && ident(is.Cond) == okn {
			le.named[n] = true
			return is.Body.List, true
		}
	}
	// x, ok := service.(T); if !ok { return false }; REST
	if len(stmts) >= 2 {
		if n, okn, found := assertOf(stmts[0]); found {
			if is, ok := stmts[1].(*ast.IfStmt); ok && is.Init == nil && is.Else == nil && len(is.Body.List) == 1 && isRetFalse(is.Body.List[0]) {
				if u, ok := is.Cond.(*ast.UnaryExpr); ok && u.Op == token.NOT && ident(u.X) == okn {
					le.named[n] = true
					return stmts[2:], true
				}
			}
		}
	}
	// switch x := service.(type) { case T: BODY; default: return false }  [; return false]
	if ts, ok := stmts[0].(*ast.TypeSwitchStmt); ok && ts.Init == nil && (len(stmts) == 1 || (len(stmts) == 2 && isRetFalse(stmts[1]))) {
		as, ok := ts.Assign.(*ast.AssignStmt)
		if ok && len(as.Lhs) == 1 && len(as.Rhs) == 1 {
			if ta, ok := as.Rhs[0].(*ast.TypeAssertExpr); ok && ta.Type == nil && ident(ta.X) == le.svc {
				var bodyStmts []ast.Stmt
				good := 0
				for _, c := range ts.Body.List {
					cc := c.(*ast.CaseClause)
					switch {
					case cc.List == nil: // default
						if !(len(cc.Body) == 1 && isRetFalse(cc.Body[0])) {
							return nil, false
						}
					case len(cc.List) == 1 && hasAlgorithm(cc.List[0]) && bodyStmts == nil:
						bodyStmts = cc.Body
						good++
					default:
						return nil, false
					}
				}
				if good == 1 && (len(stmts) == 2 || len(ts.Body.List) == 2) {
					le.named[ident(as.Lhs[0])] = true
					return bodyStmts, true
				}
			}
		}
	}
	return nil, false
}

// block translates a statement list; ok=false when a statement is not recognised
func (le *lockEnv) block(stmts []ast.Stmt, top bool) (out []string, ok bool) {
	if top {
		if inner, g := le.guard(stmts); g {
			return le.block(inner, false)
		}
	}
	for i := 0; i < len(stmts); i++ {
		s := stmts[i]
		switch x := s.(type) {
		case *ast.ExprStmt:
			switch le.muCall(x.X) {
			case "Lock":
				out = append(out, "lock")
				continue
			case "RLock":
				out = append(out, "rlock")
				continue
			case "Unlock":
				out = append(out, "unlock")
				continue
			case "RUnlock":
				out = append(out, "runlock")
				continue
			}
			if c, isCall := x.X.(*ast.CallExpr); isCall && ident(c.Fun) == "delete" && len(c.Args) == 2 && le.isField(c.Args[0], "cache") && le.isKey(c.Args[1]) && le.key != "" {
				out = append(out, "delete")
				continue
			}
			return out, false
		case *ast.DeferStmt:
			switch le.muCall(x.Call) {
			case "Unlock":
				out = append(out, "deferUnlock")
				continue
			case "RUnlock":
				out = append(out, "deferRUnlock")
				continue
			}
			return out, false
		case *ast.AssignStmt:
			// ctx := checksumServiceContext
			if x.Tok == token.DEFINE && len(x.Lhs) == 1 && len(x.Rhs) == 1 && le.isCtx(x.Rhs[0]) && ident(x.Lhs[0]) != "" {
				le.ctx[ident(x.Lhs[0])] = true
				continue
			}
			// fresh := make(map[string]any)
			if x.Tok == token.DEFINE && len(x.Lhs) == 1 && len(x.Rhs) == 1 && isEmptyMapMake(x.Rhs[0]) && ident(x.Lhs[0]) != "" {
				le.freshMap[ident(x.Lhs[0])] = true
				continue
			}
			// cache = make(map…) | cache = fresh
			if x.Tok == token.ASSIGN && len(x.Lhs) == 1 && len(x.Rhs) == 1 && le.isField(x.Lhs[0], "cache") {
				if isEmptyMapMake(x.Rhs[0]) || le.freshMap[ident(x.Rhs[0])] {
					delete(le.freshMap, ident(x.Rhs[0])) // the local is the registry's map from now on
					out = append(out, "replace")
					continue
				}
				return out, false
			}
			// cache[key] = service
			if x.Tok == token.ASSIGN && len(x.Lhs) == 1 && len(x.Rhs) == 1 && le.isCacheAt(x.Lhs[0]) && le.svc != "" && ident(x.Rhs[0]) == le.svc {
				out = append(out, "store")
				continue
			}
			// v, ok := cache[key]   (plain load; its uses are matched below)
			if x.Tok == token.DEFINE && len(x.Lhs) == 2 && len(x.Rhs) == 1 && le.isCacheAt(x.Rhs[0]) && le.loadOK == "" && ident(x.Lhs[1]) != "" && ident(x.Lhs[1]) != "_" {
				le.loadV, le.loadOK = ident(x.Lhs[0]), ident(x.Lhs[1])
				// `_, ok := cache[k]; if !ok { cache[k] = s }; return !ok`
				if le.loadV == "_" && i+2 < len(stmts) {
					if is, isIf := stmts[i+1].(*ast.IfStmt); isIf && is.Init == nil && is.Else == nil && len(is.Body.List) == 1 {
						u, isNot := is.Cond.(*ast.UnaryExpr)
						as, isAs := is.Body.List[0].(*ast.AssignStmt)
						if isNot && u.Op == token.NOT && ident(u.X) == le.loadOK && isAs && as.Tok == token.ASSIGN && len(as.Lhs) == 1 && len(as.Rhs) == 1 &&
							le.isCacheAt(as.Lhs[0]) && le.svc != "" && ident(as.Rhs[0]) == le.svc {
							if r, isRet := stmts[i+2].(*ast.ReturnStmt); isRet && len(r.Results) == 1 {
								if u2, ok2 := r.Results[0].(*ast.UnaryExpr); ok2 && u2.Op == token.NOT && ident(u2.X) == le.loadOK {
									out = append(out, "ifExistsRetFalse", "store", "retTrue")
									i += 2
									continue
								}
							}
						}
					}
				}
				if le.loadV != "_" && le.loadV != "" {
					out = append(out, "load")
					continue
				}
				return out, false
			}
			return out, false
		case *ast.IfStmt:
			// if v, ok := cache[key]; ok { return … }
			if as, isAs := x.Init.(*ast.AssignStmt); isAs && x.Else == nil && as.Tok == token.DEFINE && len(as.Lhs) == 2 && len(as.Rhs) == 1 &&
				le.isCacheAt(as.Rhs[0]) && ident(x.Cond) != "" && ident(x.Cond) == ident(as.Lhs[1]) && len(x.Body.List) == 1 {
				if r, isRet := x.Body.List[0].(*ast.ReturnStmt); isRet {
					v, okn := ident(as.Lhs[0]), ident(as.Lhs[1])
					if len(r.Results) == 1 && isBoolLit(r.Results[0], "false") {
						out = append(out, "ifExistsRetFalse")
						continue
					}
					if len(r.Results) == 2 && v != "_" && ident(r.Results[0]) == v && (ident(r.Results[1]) == okn || isBoolLit(r.Results[1], "true")) {
						out = append(out, "ifExistsRetLoaded")
						continue
					}
				}
			}
			return out, false
		case *ast.ReturnStmt:
			switch {
			case len(x.Results) == 0:
				out = append(out, "retUnit")
			case len(x.Results) == 1 && isBoolLit(x.Results[0], "true"):
				out = append(out, "retTrue")
			case len(x.Results) == 1 && isBoolLit(x.Results[0], "false"):
				out = append(out, "retFalse")
			case len(x.Results) == 2 && isBoolLit(x.Results[0], "nil") && isBoolLit(x.Results[1], "false"):
				out = append(out, "retNone")
			case len(x.Results) == 2 && le.loadOK != "" && ident(x.Results[0]) == le.loadV && ident(x.Results[1]) == le.loadOK:
				out = append(out, "retLoadedPair")
			default:
				return out, false
			}
			continue
		default:
			return out, false
		}
	}
	return out, true
}

// normaliseUnlock rewrites the explicit-unlock spellings onto the deferred-unlock statements of the Lean language, and the
// plain load / return-pair onto ifExistsRetLoaded / retNone.  A shape it does not accept is left with an "opaque".
func normaliseUnlock(t []string) []string {
	has := func(x string) bool {
		for _, s := range t {
			if s == x {
				return true
			}
		}
		return false
	}
	returning := func(s string) bool { return strings.HasPrefix(s, "ret") || strings.HasPrefix(s, "ifExists") }
	for _, pair := range [][3]string{{"lock", "unlock", "deferUnlock"}, {"rlock", "runlock", "deferRUnlock"}} {
		lk, ul, df := pair[0], pair[1], pair[2]
		if !has(ul) {
			continue
		}
		// lk :: body ++ [ul] ++ tail ; body has no returning statement, tail only pure returns of held values
		if len(t) < 2 || t[0] != lk || has(df) {
			return append(t, "opaque")
		}
		pos := -1
		for i, s := range t {
			if s == ul {
				if pos >= 0 {
					return append(t, "opaque")
				}
				pos = i
			}
		}
		for _, s := range t[1:pos] {
			if returning(s) || s == "lock" || s == "rlock" {
				return append(t, "opaque")
			}
		}
		for _, s := range t[pos+1:] {
			if s != "retLoadedPair" && s != "retTrue" && s != "retFalse" && s != "retNone" && s != "retUnit" {
				return append(t, "opaque")
			}
		}
		n := append([]string{lk, df}, t[1:pos]...)
		n = append(n, t[pos+1:]...)
		t = n
	}
	// load … retLoadedPair  ==  ifExistsRetLoaded … retNone
	// (only when the return follows the load immediately: nothing may touch the map in between)
	var out []string
	for i, s := range t {
		switch s {
		case "load":
			if i+1 >= len(t) || t[i+1] != "retLoadedPair" {
				return append(out, "opaque")
			}
			out = append(out, "ifExistsRetLoaded")
		case "retLoadedPair":
			if i == 0 || t[i-1] != "load" {
				return append(out, "opaque")
			}
			out = append(out, "retNone")
		case "retUnit":
			// falling off the end and a final bare `return` are the same
			if i != len(t)-1 {
				return append(out, "opaque")
			}
		case "unlock", "runlock":
			return append(out, "opaque")
		default:
			out = append(out, s)
		}
	}
	return out
}
