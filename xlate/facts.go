package main

import (
	"go/ast"
	"go/parser"
	"go/token"
	"os"
	"path/filepath"
	"sort"
	"strings"
)

// Facts about the hand-written library (codec/*.go) and about package-level state of all packages.
// These are NOT a translation: they are the syntactic conditions some theorems are conditioned on.
// A function whose shape is not recognised yields "unknown" (left to the correspondence check).

type FuncFacts struct {
	Orders     []string `json:"orders"`      // binary.BigEndian / binary.LittleEndian identifiers used
	Callees    []string `json:"callees"`     // package-level functions called
	Makes      []string `json:"makes"`       // each make(): "guarded:<how>" | "constant" | "unknown:<src>"
	LenConv    []string `json:"len_conv"`    // unchecked narrowing conversions T(len(x)) that remain
	BufViews   []string `json:"buf_views"`   // buf.Bytes() / buf.Next() uses
	TrimCalls  []string `json:"trim_calls"`  // bytes.Trim* calls
	UsesGlobal []string `json:"uses_global"` // package-level variables mentioned
}

type GlobalWrite struct {
	Func string `json:"func"`
	Src  string `json:"src"`
}

type GlobalVar struct {
	Pkg    string        `json:"pkg"`
	Name   string        `json:"name"`
	Writes []GlobalWrite `json:"writes"`
}

type Facts struct {
	Codec     map[string]*FuncFacts `json:"codec"`
	LockProgs map[string][]string   `json:"lock_progs"` // registry functions: micro-operations in order
	LockStmts map[string][]string   `json:"lock_stmts"` // registry functions: structured statements (LockProg.Stmt)
	MemProgs  map[string][][]string `json:"mem_progs"`
	SymDiffs  []string              `json:"translator_disagreements"` // methods read differently by the two translators  // reader primitives: memory instructions (Alias.Instr)
	CalcFacts map[string][]string   `json:"calc"`       // per Calc method: calls made on its argument
	Algs      map[string]string     `json:"algorithms"` // service type -> Algorithm() literal
	InitRegs  []string              `json:"init_registrations"`
	Imports   map[string][]string   `json:"imports"` // pkg -> imported paths (non-test files)
	Globals   []GlobalVar           `json:"globals"`
	Callers   map[string][]string   `json:"callers_of_mutators"` // mutator function -> functions that call it
	GoStmts   []string              `json:"go_statements"`       // `go` statements / sync.Pool uses in non-test code
	PrimDefs  map[string]string     `json:"prim_defs"`           // template translation of each codec primitive (CodecProg.PrimDef)
	ProtoDSL  map[string]string     `json:"proto_dsl"`           // <module>/Makefile: PROTO_DSL (which protocol definition the generated code claims)
}

func parseDir(dir string) []*ast.File {
	files, _ := filepath.Glob(filepath.Join(dir, "*.go"))
	sort.Strings(files)
	var out []*ast.File
	for _, f := range files {
		if strings.HasSuffix(f, "_test.go") {
			continue
		}
		af, err := parser.ParseFile(fset, f, nil, parser.SkipObjectResolution)
		if err == nil {
			out = append(out, af)
		}
	}
	return out
}

func add(l *[]string, s string) {
	for _, x := range *l {
		if x == s {
			return
		}
	}
	*l = append(*l, s)
}

func extractFacts(root string) *Facts {
	fx := &Facts{Codec: map[string]*FuncFacts{}, LockProgs: map[string][]string{}, LockStmts: map[string][]string{}, MemProgs: map[string][][]string{}, CalcFacts: map[string][]string{}, Algs: map[string]string{},
		Imports: map[string][]string{}, Callers: map[string][]string{}}
	dirs := map[string]string{"codec": "codec"}
	for _, p := range pkgs {
		dirs[p.short] = p.dir
	}
	names := make([]string, 0, len(dirs))
	for k := range dirs {
		names = append(names, k)
	}
	sort.Strings(names)
	for _, pk := range names {
		files := parseDir(filepath.Join(root, dirs[pk]))
		// package-level variables
		globals := map[string]*GlobalVar{}
		for _, af := range files {
			for _, im := range af.Imports {
				add2(fx.Imports, pk, strings.Trim(im.Path.Value, `"`))
			}
			for _, d := range af.Decls {
				if gd, ok := d.(*ast.GenDecl); ok && gd.Tok == token.VAR {
					for _, s := range gd.Specs {
						for _, n := range s.(*ast.ValueSpec).Names {
							globals[n.Name] = &GlobalVar{Pkg: pk, Name: n.Name, Writes: []GlobalWrite{}}
						}
					}
				}
			}
		}
		if pk == "codec" {
			for _, af := range files {
				for _, d := range af.Decls {
					if fd, ok := d.(*ast.FuncDecl); ok && fd.Body != nil && fd.Recv != nil {
						codecMethods[fd.Name.Name] = fd
					}
					if fd, ok := d.(*ast.FuncDecl); ok && fd.Body != nil && fd.Recv == nil {
						codecFuncNames[fd.Name.Name] = true
					}
					if gd, ok := d.(*ast.GenDecl); ok && gd.Tok == token.TYPE {
						for _, sp := range gd.Specs {
							codecTypeSpecs[sp.(*ast.TypeSpec).Name.Name] = sp.(*ast.TypeSpec)
						}
					}
				}
			}
		}
		for _, af := range files {
			for _, d := range af.Decls {
				fd, ok := d.(*ast.FuncDecl)
				if !ok || fd.Body == nil {
					continue
				}
				fname := fd.Name.Name
				if fd.Recv != nil {
					fname = strings.TrimPrefix(typeStr(fd.Recv.List[0].Type), "*") + "." + fname
				}
				// writes to package-level variables
				rootIdent := func(e ast.Expr) string {
					for {
						switch x := e.(type) {
						case *ast.Ident:
							return x.Name
						case *ast.SelectorExpr:
							e = x.X
						case *ast.IndexExpr:
							e = x.X
						case *ast.StarExpr:
							e = x.X
						case *ast.ParenExpr:
							e = x.X
						default:
							return ""
						}
					}
				}
				local := map[string]bool{}
				ast.Inspect(fd, func(n ast.Node) bool {
					switch x := n.(type) {
					case *ast.AssignStmt:
						if x.Tok == token.DEFINE {
							for _, l := range x.Lhs {
								if id, ok := l.(*ast.Ident); ok {
									local[id.Name] = true
								}
							}
						}
					case *ast.Field:
						for _, nm := range x.Names {
							local[nm.Name] = true
						}
					case *ast.ValueSpec:
						for _, nm := range x.Names {
							local[nm.Name] = true
						}
					case *ast.RangeStmt:
						if id, ok := x.Key.(*ast.Ident); ok {
							local[id.Name] = true
						}
						if id, ok := x.Value.(*ast.Ident); ok {
							local[id.Name] = true
						}
					}
					return true
				})
				ast.Inspect(fd.Body, func(n ast.Node) bool {
					rec := func(e ast.Expr, src ast.Node) {
						r := rootIdent(e)
						if g, ok := globals[r]; ok && !local[r] {
							g.Writes = append(g.Writes, GlobalWrite{fname, src2(src)})
						}
					}
					switch x := n.(type) {
					case *ast.AssignStmt:
						if x.Tok != token.DEFINE {
							for _, l := range x.Lhs {
								rec(l, x)
							}
						}
					case *ast.IncDecStmt:
						rec(x.X, x)
					case *ast.CallExpr:
						if id, ok := x.Fun.(*ast.Ident); ok && (id.Name == "delete" || id.Name == "clear" || id.Name == "copy" || id.Name == "append") && len(x.Args) > 0 {
							if id.Name != "append" {
								rec(x.Args[0], x)
							}
						}
						// mutating methods on a package-level value (Lock/Unlock are synchronisation, listed as writes too)
						if sel, ok := x.Fun.(*ast.SelectorExpr); ok {
							switch sel.Sel.Name {
							case "Store", "Swap", "CompareAndSwap", "Add", "Put", "Reset", "Write", "WriteString", "Grow", "Truncate":
								rec(sel.X, x)
							}
						}
					case *ast.UnaryExpr:
						if x.Op == token.AND {
							if r := rootIdent(x.X); r != "" {
								if _, ok := globals[r]; ok && !local[r] {
									if _, isLit := x.X.(*ast.CompositeLit); !isLit {
										globals[r].Writes = append(globals[r].Writes, GlobalWrite{fname, "address taken: " + src2(x)})
									}
								}
							}
						}
					case *ast.GoStmt:
						fx.GoStmts = append(fx.GoStmts, pk+"."+fname+": "+src(x))
					case *ast.SelectorExpr:
						if id, ok := x.X.(*ast.Ident); ok && id.Name == "sync" && x.Sel.Name == "Pool" {
							fx.GoStmts = append(fx.GoStmts, pk+"."+fname+": sync.Pool")
						}
					}
					return true
				})
				// callers of table / registry mutators
				ast.Inspect(fd.Body, func(n ast.Node) bool {
					if c, ok := n.(*ast.CallExpr); ok {
						name := ""
						switch f := c.Fun.(type) {
						case *ast.Ident:
							name = f.Name
						case *ast.SelectorExpr:
							if id, ok := f.X.(*ast.Ident); ok && id.Name == "codec" {
								name = "codec." + f.Sel.Name
							}
						}
						if strings.HasPrefix(name, "Registry") || name == "codec.Registry" || name == "codec.Remove" || name == "codec.Clear" ||
							(pk == "codec" && (name == "Remove" || name == "Clear")) {
							key := pk + "." + name
							add2(fx.Callers, key, pk+"."+fname)
						}
					}
					return true
				})
				if pk == "codec" {
					codecFuncFacts(fx, fd, fname, globals, local)
				}
			}
		}
		gl := make([]string, 0, len(globals))
		for k := range globals {
			gl = append(gl, k)
		}
		sort.Strings(gl)
		for _, k := range gl {
			fx.Globals = append(fx.Globals, *globals[k])
		}
	}
	fx.PrimDefs = map[string]string{}
	defs, _ := primDefs(root)
	for i, n := range primNames {
		fx.PrimDefs[n] = defs[i]
	}
	fx.ProtoDSL = map[string]string{}
	mks, _ := filepath.Glob(filepath.Join(root, "*", "Makefile"))
	for _, mk := range mks {
		b, err := os.ReadFile(mk)
		if err != nil {
			continue
		}
		for _, line := range strings.Split(string(b), "\n") {
			if strings.HasPrefix(line, "PROTO_DSL") {
				parts := strings.SplitN(line, ":=", 2)
				if len(parts) == 2 {
					fx.ProtoDSL[filepath.Base(filepath.Dir(mk))] = filepath.Base(strings.TrimSpace(parts[1]))
				}
			}
		}
	}
	return fx
}

func add2(m map[string][]string, k, v string) {
	l := m[k]
	add(&l, v)
	m[k] = l
}

func codecFuncFacts(fx *Facts, fd *ast.FuncDecl, fname string, globals map[string]*GlobalVar, local map[string]bool) {
	ff := &FuncFacts{Orders: []string{}, Callees: []string{}, Makes: []string{}, LenConv: []string{}, BufViews: []string{}, TrimCalls: []string{}, UsesGlobal: []string{}}
	fx.Codec[fname] = ff
	params := map[string]bool{}
	if fd.Type.Params != nil {
		for _, f := range fd.Type.Params.List {
			for _, n := range f.Names {
				params[n.Name] = true
			}
		}
	}
	// guards of the form `if X > buf.Len() { return … }` seen so far, per variable; and variables mentioned in ANY earlier
	// if-condition or if-initialiser (a guard in a shape that is not recognised: "unknown", not "unguarded")
	guarded := map[string]bool{}
	mentioned := map[string]bool{}
	bounded := map[string]bool{}
	var walk func(stmts []ast.Stmt)
	inspectExpr := func(n ast.Node) {
		ast.Inspect(n, func(n ast.Node) bool {
			switch x := n.(type) {
			case *ast.SelectorExpr:
				if id, ok := x.X.(*ast.Ident); ok && id.Name == "binary" && (x.Sel.Name == "BigEndian" || x.Sel.Name == "LittleEndian") {
					add(&ff.Orders, x.Sel.Name)
				}
				if id, ok := x.X.(*ast.Ident); ok && id.Name == "buf" && (x.Sel.Name == "Bytes" || x.Sel.Name == "Next" || x.Sel.Name == "Available" || x.Sel.Name == "AvailableBuffer" || x.Sel.Name == "Cap") {
					add(&ff.BufViews, "buf."+x.Sel.Name)
				}
				if id, ok := x.X.(*ast.Ident); ok && id.Name == "data" && fd.Name.Name == "Calc" {
					add2(fx.CalcFacts, fname, "data."+x.Sel.Name)
				}
				if id, ok := x.X.(*ast.Ident); ok && id.Name == "bytes" && strings.HasPrefix(x.Sel.Name, "Trim") {
					add(&ff.TrimCalls, "bytes."+x.Sel.Name)
				}
				if id, ok := x.X.(*ast.Ident); ok && id.Name == "unsafe" {
					add(&ff.BufViews, "unsafe."+x.Sel.Name)
				}
			case *ast.Ident:
				if _, ok := globals[x.Name]; ok && !local[x.Name] {
					add(&ff.UsesGlobal, x.Name)
				}
			case *ast.CallExpr:
				fun := x.Fun
				if ix, ok := fun.(*ast.IndexExpr); ok {
					fun = ix.X
				}
				if ix, ok := fun.(*ast.IndexListExpr); ok {
					fun = ix.X
				}
				if id, ok := fun.(*ast.Ident); ok {
					switch id.Name {
					case "make":
						ff.Makes = append(ff.Makes, classifyMake(x, params, guarded, mentioned))
					case "T", "K":
						if len(x.Args) == 1 && strings.HasPrefix(src(x.Args[0]), "len(") {
							ff.LenConv = append(ff.LenConv, src(x))
						}
					case "len", "int", "string", "byte", "append", "min", "uint64", "rune", "new", "cap", "copy", "panic", "max":
					default:
						if id.Obj == nil && !local[id.Name] || true {
							if !local[id.Name] {
								add(&ff.Callees, id.Name)
							}
						}
					}
				}
			}
			return true
		})
	}
	walk = func(stmts []ast.Stmt) {
		for _, s := range stmts {
			// record guards before inspecting later statements
			if is, ok := s.(*ast.IfStmt); ok {
				note := func(n ast.Node) {
					if n == nil {
						return
					}
					ast.Inspect(n, func(n ast.Node) bool {
						if id, ok := n.(*ast.Ident); ok {
							mentioned[id.Name] = true
						}
						return true
					})
				}
				note(is.Cond)
				if is.Init != nil {
					note(is.Init)
				}
			}
			// locals that hold (at most) the number of unread bytes: `avail := buf.Len()`, `n := min(count, buf.Len())`
			if as, ok := s.(*ast.AssignStmt); ok && len(as.Lhs) == 1 && len(as.Rhs) == 1 {
				if id, ok := as.Lhs[0].(*ast.Ident); ok && boundedByInput(as.Rhs[0], bounded) {
					bounded[id.Name] = true
					guarded[id.Name] = true
				}
			}
			// `if X > buf.Len() { return … }` in any of its spellings (X > L, L < X, X >= L, L <= X; L the unread count)
			if is, ok := s.(*ast.IfStmt); ok && is.Init == nil {
				if b, ok := is.Cond.(*ast.BinaryExpr); ok && len(is.Body.List) == 1 {
					var big, lim ast.Expr
					switch b.Op {
					case token.GTR, token.GEQ:
						big, lim = b.X, b.Y
					case token.LSS, token.LEQ:
						big, lim = b.Y, b.X
					}
					if big != nil && boundedByInput(lim, bounded) {
						if id, ok := big.(*ast.Ident); ok {
							if _, isRet := is.Body.List[0].(*ast.ReturnStmt); isRet {
								guarded[id.Name] = true
							}
						}
					}
				}
			}
			switch x := s.(type) {
			case *ast.ForStmt:
				if x.Init != nil {
					inspectExpr(x.Init)
				}
				if x.Cond != nil {
					inspectExpr(x.Cond)
				}
				if x.Post != nil {
					inspectExpr(x.Post)
				}
				walk(x.Body.List)
			case *ast.RangeStmt:
				inspectExpr(x.X)
				walk(x.Body.List)
			case *ast.IfStmt:
				if x.Init != nil {
					inspectExpr(x.Init)
				}
				inspectExpr(x.Cond)
				walk(x.Body.List)
				if eb, ok := x.Else.(*ast.BlockStmt); ok {
					walk(eb.List)
				} else if x.Else != nil {
					walk([]ast.Stmt{x.Else})
				}
			case *ast.BlockStmt:
				walk(x.List)
			default:
				inspectExpr(s)
			}
		}
	}
	walk(fd.Body.List)
	sort.Strings(ff.Orders)
	sort.Strings(ff.Callees)

	if strings.HasPrefix(fname, "Read") || returnsMemory(fd) {
		fx.MemProgs[fname] = memPrograms(fd)
	}
	// registry lock programs and services
	switch fname {
	case "Registry", "Get", "Remove", "Clear":
		fx.LockProgs[fname] = lockProgram(fd)
		fx.LockStmts[fname] = lockStmts(fd)
	}
	if fd.Name.Name == "Algorithm" && fd.Recv != nil && len(fd.Body.List) == 1 {
		if r, ok := fd.Body.List[0].(*ast.ReturnStmt); ok && len(r.Results) == 1 {
			if bl, ok := r.Results[0].(*ast.BasicLit); ok {
				fx.Algs[strings.TrimPrefix(typeStr(fd.Recv.List[0].Type), "*")] = strings.Trim(bl.Value, `"`)
			}
		}
	}
	if fd.Name.Name == "init" && fd.Recv == nil {
		for _, s := range fd.Body.List {
			fx.InitRegs = append(fx.InitRegs, src(s))
		}
	}
}

// an expression that is at most the number of unread bytes of the buffer: buf.Len(), a local assigned from it,
// min(…) with such an argument
func boundedByInput(e ast.Expr, bounded map[string]bool) bool {
	switch x := e.(type) {
	case *ast.ParenExpr:
		return boundedByInput(x.X, bounded)
	case *ast.Ident:
		return bounded[x.Name]
	case *ast.CallExpr:
		if src(x) == "buf.Len()" {
			return true
		}
		if id, ok := x.Fun.(*ast.Ident); ok && id.Name == "min" {
			for _, a := range x.Args {
				if boundedByInput(a, bounded) {
					return true
				}
			}
		}
	}
	return false
}

func classifyMake(c *ast.CallExpr, params map[string]bool, guarded map[string]bool, mentioned map[string]bool) string {
	if len(c.Args) < 2 {
		return "constant"
	}
	size := c.Args[len(c.Args)-1] // length, or capacity when both are given
	if len(c.Args) == 3 {
		if s := src(c.Args[1]); s != "0" {
			return "unknown:" + src(c)
		}
	}
	switch x := size.(type) {
	case *ast.BasicLit:
		return "constant"
	case *ast.Ident:
		if params[x.Name] {
			return "constant" // a width fixed by the caller's code, not read from the wire
		}
		if guarded[x.Name] {
			return "guarded:if " + x.Name + " > buf.Len()"
		}
		if mentioned[x.Name] {
			return "unknown:" + src(c) + " (the size is tested by an earlier condition of unrecognised shape)"
		}
		return "unguarded:" + src(c)
	case *ast.CallExpr:
		if id, ok := x.Fun.(*ast.Ident); ok && id.Name == "min" && len(x.Args) == 2 {
			a, b := src(x.Args[0]), src(x.Args[1])
			if a == "buf.Len()" || b == "buf.Len()" {
				return "guarded:min(" + a + ", " + b + ")"
			}
		}
	}
	return "unknown:" + src(c)
}

// lockProgram: the synchronisation and map micro-operations of a registry function, in source order
func lockProgram(fd *ast.FuncDecl) []string {
	var prog []string
	var walk func(n ast.Node, deferred bool)
	emitCall := func(c *ast.CallExpr, deferred bool) bool {
		s := src(c)
		pre := ""
		if deferred {
			pre = "defer "
		}
		switch {
		case strings.HasSuffix(s, ".mu.Lock()"):
			prog = append(prog, pre+"Lock")
		case strings.HasSuffix(s, ".mu.Unlock()"):
			prog = append(prog, pre+"Unlock")
		case strings.HasSuffix(s, ".mu.RLock()"):
			prog = append(prog, pre+"RLock")
		case strings.HasSuffix(s, ".mu.RUnlock()"):
			prog = append(prog, pre+"RUnlock")
		case strings.HasPrefix(s, "delete(") && strings.Contains(s, ".cache"):
			prog = append(prog, "map-delete")
		default:
			return false
		}
		return true
	}
	walk = func(n ast.Node, deferred bool) {
		ast.Inspect(n, func(n ast.Node) bool {
			switch x := n.(type) {
			case *ast.DeferStmt:
				if !emitCall(x.Call, true) {
					prog = append(prog, "defer ?"+src(x.Call))
				}
				return false
			case *ast.GoStmt:
				prog = append(prog, "go ?"+src(x.Call))
				return false
			case *ast.CallExpr:
				if emitCall(x, false) {
					return false
				}
			case *ast.AssignStmt:
				for _, r := range x.Rhs {
					walk(r, false)
				}
				for _, l := range x.Lhs {
					ls := src(l)
					if strings.Contains(ls, ".cache[") {
						prog = append(prog, "map-store")
					} else if strings.HasSuffix(ls, ".cache") && x.Tok == token.ASSIGN {
						prog = append(prog, "map-replace")
					}
				}
				return false
			case *ast.IndexExpr:
				if strings.HasSuffix(src(x.X), ".cache") {
					prog = append(prog, "map-load")
				}
			case *ast.ReturnStmt:
				for _, r := range x.Results {
					walk(r, false)
				}
				prog = append(prog, "return")
				return false
			}
			return true
		})
	}
	walk(fd.Body, false)
	return prog
}

// a function whose results include text or bytes (its result could alias the buffer it reads from)
func returnsMemory(fd *ast.FuncDecl) bool {
	if fd.Type.Results == nil || fd.Recv != nil {
		return false
	}
	takesBuf := false
	if fd.Type.Params != nil {
		for _, p := range fd.Type.Params.List {
			if typeStr(p.Type) == "*bytes.Buffer" {
				takesBuf = true
			}
		}
	}
	if !takesBuf {
		return false
	}
	for _, r := range fd.Type.Results.List {
		t := typeStr(r.Type)
		if strings.Contains(t, "string") || strings.Contains(t, "[]byte") {
			return true
		}
	}
	return false
}
