package main

// extractFacts: facts about codec/*.go and package-level state (filled in step by step).
func extractFacts(root string) map[string]any {
	return map[string]any{}
}
