// xlate: reads the message packages of /repo (Go AST only) and emits the schema the Lean model is
// instantiated at: per type the op list of Encode and, independently, of Decode; the discriminator
// tables; the frame descriptors.  A statement that is not recognised becomes an `opaque` op — it is
// never dropped.
package main

import (
	"bytes"
	"encoding/json"
	"flag"
	"fmt"
	"go/ast"
	"go/parser"
	"go/printer"
	"go/token"
	"os"
	"path/filepath"
	"sort"
	"strconv"
	"strings"
)

type Op struct {
	K    string `json:"k"`
	W    int    `json:"w,omitempty"`  // scalar/element width
	E    string `json:"e,omitempty"`  // be|le
	N    int    `json:"n,omitempty"`  // fixed width
	Pad  int    `json:"pad"`          // pad byte
	Left bool   `json:"left"`         // pad side
	CW   int    `json:"cw,omitempty"` // count prefix width
	PW   int    `json:"pw,omitempty"` // text length prefix width
	Ty   int    `json:"ty"`           // nested / element type id
	TyN  string `json:"tyn,omitempty"`
	Key  int    `json:"key"` // union: index of the key field
	Tbl  int    `json:"tbl"` // union: table id
	TblN string `json:"tbln,omitempty"`
	G    string `json:"g,omitempty"` // nil handling: none|mat|skip|val
	Src  string `json:"src,omitempty"`
	F    string `json:"f,omitempty"` // Go field the op reads/assigns
}

type Field struct {
	Name   string `json:"name"`
	GoType string `json:"gotype"`
}

type Frame struct {
	Hdr   []Op   `json:"hdr"`   // ops before the length field
	LenW  int    `json:"lenw"`  // width of the length field
	E     string `json:"e"`     // byte order of placeholder, patch and trailer
	Key   int    `json:"key"`   // index of the discriminator field
	Tbl   int    `json:"tbl"`   // body table
	G     string `json:"g"`     // skip|mat
	Cks   string `json:"cks"`   // algorithm name or ""
	CksW  int    `json:"cksw"`  // width of the checksum trailer (0 = none)
	Facts []string `json:"facts"` // shape facts that were recognised
}

type Type struct {
	ID     int     `json:"id"`
	Pkg    string  `json:"pkg"`
	Name   string  `json:"name"`
	Fields []Field `json:"fields"`
	Enc    []Op    `json:"enc"`
	Dec    []Op    `json:"dec"`
	Frame  *Frame  `json:"frame"`
	Hand   bool    `json:"hand"`   // hand-written (file has no "Code generated" header)
	Ctor   bool    `json:"ctor"`   // has NewT()
	Codec  bool    `json:"codec"`  // implements codec.BinaryCodec (Encode returns error)
}

type Entry struct {
	Key  string `json:"key"` // decimal number or hex of the text key
	Ty   int    `json:"ty"`
	TyN  string `json:"tyn"`
}

type Table struct {
	ID      int     `json:"id"`
	Pkg     string  `json:"pkg"`
	Lookup  string  `json:"lookup"`
	Reg     string  `json:"reg"`
	KeyKind string  `json:"keykind"` // num|str
	KeyType string  `json:"keytype"` // Go type of the key
	Entries []Entry `json:"entries"` // in registration order (last wins)
}

type Schema struct {
	Types  []*Type  `json:"types"`
	Tables []*Table `json:"tables"`
	Notes  []string `json:"notes"`
	// every package-level function with the signature of a discriminator look-up, recognised or not (for the harness)
	LookupSigs []LookupSig `json:"lookup_sigs"`
	RegSigs    []RegSig    `json:"reg_sigs"`
}

type LookupSig struct{ Pkg, Name, KeyType string }

// every exported function with the signature of a table registration, recognised or not (for the harness)
type RegSig struct{ Pkg, Name, KeyType string }

var pkgs = []struct{ short, dir, imp string }{
	{"bse", "bjse-trade-bin/messages", "github.com/xinchentechnote/fin-proto-go/bjse-trade-bin/messages"},
	{"risk", "risk-bin/messages", "github.com/xinchentechnote/fin-proto-go/risk-bin/messages"},
	{"sample", "sample-bin/messages", "github.com/xinchentechnote/fin-proto-go/sample-bin/messages"},
	{"sse", "sse-bin/messages", "github.com/xinchentechnote/fin-proto-go/sse-bin/messages"},
	{"szse", "szse-bin/messages", "github.com/xinchentechnote/fin-proto-go/szse-bin/messages"},
}

var fset = token.NewFileSet()

func src(n ast.Node) string {
	var b bytes.Buffer
	printer.Fprint(&b, fset, n)
	s := strings.Join(strings.Fields(b.String()), " ")
	if len(s) > 160 {
		s = s[:160] + "…"
	}
	return s
}

type pkgInfo struct {
	short   string
	structs map[string]*ast.StructType
	methods map[string]map[string]*ast.FuncDecl // type -> method -> decl
	funcs   map[string]*ast.FuncDecl
	order   []string
	hand    map[string]bool // struct declared in a file without the "Code generated" header
	consts  map[string]ast.Expr // package-level constants with a literal value
	strs    map[string]string   // package-level string constants
	vars    map[string]ast.Expr // package-level variables initialised with a composite literal
	mapLits map[string]*ast.CompositeLit // package-level maps initialised with a (possibly non-empty) literal
}

func scalarWidth(t string) int {
	switch t {
	case "int8", "uint8", "byte":
		return 1
	case "int16", "uint16":
		return 2
	case "int32", "uint32", "float32":
		return 4
	case "int64", "uint64", "float64":
		return 8
	}
	return 0
}

func typeStr(e ast.Expr) string {
	switch t := e.(type) {
	case *ast.Ident:
		return t.Name
	case *ast.StarExpr:
		return "*" + typeStr(t.X)
	case *ast.ArrayType:
		if t.Len == nil {
			return "[]" + typeStr(t.Elt)
		}
	case *ast.SelectorExpr:
		return typeStr(t.X) + "." + t.Sel.Name
	}
	return "?" + src(e)
}

func loadPkg(root, short, dir string) *pkgInfo {
	pi := &pkgInfo{short: short, structs: map[string]*ast.StructType{}, methods: map[string]map[string]*ast.FuncDecl{}, funcs: map[string]*ast.FuncDecl{}, hand: map[string]bool{}, consts: map[string]ast.Expr{}, strs: map[string]string{}, vars: map[string]ast.Expr{}, mapLits: map[string]*ast.CompositeLit{}}
	files, _ := filepath.Glob(filepath.Join(root, dir, "*.go"))
	sort.Strings(files)
	for _, f := range files {
		if strings.HasSuffix(f, "_test.go") {
			continue
		}
		af, err := parser.ParseFile(fset, f, nil, parser.SkipObjectResolution|parser.ParseComments)
		if err != nil {
			fmt.Fprintln(os.Stderr, "parse error:", err)
			os.Exit(2)
		}
		generated := false
		for _, cg := range af.Comments {
			if strings.Contains(cg.Text(), "Code generated") {
				generated = true
			}
		}
		for _, d := range af.Decls {
			switch d := d.(type) {
			case *ast.GenDecl:
				if d.Tok == token.VAR {
					for _, s := range d.Specs {
						if vs, ok := s.(*ast.ValueSpec); ok && len(vs.Names) == len(vs.Values) {
							for k, n := range vs.Names {
								if cl, ok := vs.Values[k].(*ast.CompositeLit); ok {
									if _, isArr := cl.Type.(*ast.ArrayType); isArr {
										pi.vars[n.Name] = cl
									}
									if _, isMap := cl.Type.(*ast.MapType); isMap {
										pi.mapLits[n.Name] = cl
									}
								}
							}
						}
					}
				}
				if d.Tok == token.CONST {
					for _, s := range d.Specs {
						if vs, ok := s.(*ast.ValueSpec); ok && len(vs.Names) == len(vs.Values) {
							for k, n := range vs.Names {
								if _, ok := intLit(vs.Values[k]); ok {
									pi.consts[n.Name] = vs.Values[k]
								}
								if bl, ok := vs.Values[k].(*ast.BasicLit); ok && bl.Kind == token.STRING {
									if v, err := strconv.Unquote(bl.Value); err == nil {
										pi.strs[n.Name] = v
									}
								}
							}
						}
					}
				}
				for _, s := range d.Specs {
					if ts, ok := s.(*ast.TypeSpec); ok {
						if st, ok := ts.Type.(*ast.StructType); ok {
							pi.structs[ts.Name.Name] = st
							pi.order = append(pi.order, ts.Name.Name)
							pi.hand[ts.Name.Name] = !generated
						}
					}
				}
			case *ast.FuncDecl:
				if d.Recv == nil {
					if d.Name.Name == "init" {
						pi.funcs["init#"+strconv.Itoa(len(pi.funcs))] = d
					} else {
						pi.funcs[d.Name.Name] = d
					}
					continue
				}
				rt := typeStr(d.Recv.List[0].Type)
				rt = strings.TrimPrefix(rt, "*")
				if pi.methods[rt] == nil {
					pi.methods[rt] = map[string]*ast.FuncDecl{}
				}
				pi.methods[rt][d.Name.Name] = d
			}
		}
	}
	return pi
}

// ---- literal evaluation -------------------------------------------------------------------------

// constants of the package being translated (integer and string valued)
var curConsts = map[string]ast.Expr{}
var curStrConsts = map[string]string{}

func strLit(e ast.Expr) (string, bool) {
	switch l := e.(type) {
	case *ast.BasicLit:
		if l.Kind == token.STRING {
			v, err := strconv.Unquote(l.Value)
			return v, err == nil
		}
	case *ast.Ident:
		v, ok := curStrConsts[l.Name]
		return v, ok
	}
	return "", false
}

func intLit(e ast.Expr) (int, bool) {
	switch l := e.(type) {
	case *ast.Ident:
		if c, ok := curConsts[l.Name]; ok {
			return intLit(c)
		}
	case *ast.BasicLit:
		switch l.Kind {
		case token.INT:
			v, err := strconv.ParseInt(l.Value, 0, 64)
			return int(v), err == nil
		case token.CHAR:
			r, _, _, err := strconv.UnquoteChar(l.Value[1:len(l.Value)-1], '\'')
			return int(r), err == nil
		}
	case *ast.ParenExpr:
		return intLit(l.X)
	case *ast.CallExpr: // rune(0x20), byte(' ')
		if id, ok := l.Fun.(*ast.Ident); ok && len(l.Args) == 1 && (id.Name == "rune" || id.Name == "byte" || id.Name == "int") {
			return intLit(l.Args[0])
		}
	}
	return 0, false
}

func boolLit(e ast.Expr) (bool, bool) {
	if id, ok := e.(*ast.Ident); ok {
		if id.Name == "true" {
			return true, true
		}
		if id.Name == "false" {
			return false, true
		}
	}
	return false, false
}

// codec call: returns name, type args, args
func codecCall(e ast.Expr) (string, []string, []ast.Expr, bool) {
	c, ok := e.(*ast.CallExpr)
	if !ok {
		return "", nil, nil, false
	}
	fun := c.Fun
	var targs []string
	switch ix := fun.(type) {
	case *ast.IndexExpr:
		targs = []string{typeStr(ix.Index)}
		fun = ix.X
	case *ast.IndexListExpr:
		for _, t := range ix.Indices {
			targs = append(targs, typeStr(t))
		}
		fun = ix.X
	}
	sel, ok := fun.(*ast.SelectorExpr)
	if !ok {
		return "", nil, nil, false
	}
	if id, ok := sel.X.(*ast.Ident); !ok || id.Name != "codec" {
		return "", nil, nil, false
	}
	return sel.Sel.Name, targs, c.Args, true
}

func isBuf(e ast.Expr) bool { id, ok := e.(*ast.Ident); return ok && id.Name == "buf" }

// recvField: p.F -> "F"
func recvField(e ast.Expr, recv string) (string, bool) {
	sel, ok := e.(*ast.SelectorExpr)
	if !ok {
		return "", false
	}
	id, ok := sel.X.(*ast.Ident)
	if !ok || id.Name != recv {
		return "", false
	}
	return sel.Sel.Name, true
}

type ctx struct {
	pi     *pkgInfo
	tyName string
	recv   string
	fields []Field
	ftype  map[string]string
	fidx   map[string]int
	tyID   func(pkg, name string) (int, bool)
	tblID  func(pkg, lookup string) (int, bool)
}

func endianOf(name string) (string, string) {
	if strings.HasSuffix(name, "LE") {
		return strings.TrimSuffix(name, "LE"), "le"
	}
	return name, "be"
}

// primitive -> Op for a write call (args after buf, value) or read call (args after buf)
// every (direction, codec function, op) the generated code's calls were read as: Lean checks that the model's own table from
// ops to functions (GoIR.opWriter / opReader) names the same function (Obl.ir_calls)
var callLog = map[string]bool{}

func logCall(write bool, name string, op Op) Op {
	w := "false"
	if write {
		w = "true"
	}
	callLog[fmt.Sprintf("(%s, %q, %s)", w, name, leanOp(op))] = true
	return op
}

func (c *ctx) primOp(write bool, name string, targs []string, rest []ast.Expr, valType string) (Op, bool) {
	op, ok := c.primOp0(write, name, targs, rest, valType)
	if ok {
		logCall(write, name, op)
	}
	return op, ok
}

func (c *ctx) primOp0(write bool, name string, targs []string, rest []ast.Expr, valType string) (Op, bool) {
	base, e := endianOf(name)
	if write {
		base = strings.TrimPrefix(base, "Write")
	} else {
		base = strings.TrimPrefix(base, "Read")
	}
	tw := func(i int) int {
		if i < len(targs) {
			return scalarWidth(targs[i])
		}
		return 0
	}
	fixedArgs := func(op *Op, rest []ast.Expr, withPad bool) bool {
		if withPad {
			if len(rest) != 3 {
				return false
			}
		} else if len(rest) != 1 {
			return false
		}
		n, ok := intLit(rest[0])
		if !ok || n < 0 {
			return false
		}
		op.N = n
		op.Pad = ' '
		op.Left = false
		if withPad {
			p, ok1 := intLit(rest[1])
			l, ok2 := boolLit(rest[2])
			if !ok1 || !ok2 || p < 0 || p > 0x10FFFF {
				return false
			}
			op.Pad = p & 0xFF // Padding writes byte(padChar)
			if p > 0xFF {
				return false
			}
			op.Left = l
		}
		return true
	}
	switch base {
	case "BasicType":
		w := 0
		if write {
			w = scalarWidth(valType)
			if len(targs) == 1 {
				w = tw(0)
			}
		} else {
			w = tw(0)
		}
		if w == 0 || len(rest) != 0 {
			return Op{}, false
		}
		return Op{K: "scalar", W: w, E: e}, true
	case "BasicTypeList":
		cw := tw(0)
		w := 0
		if write {
			w = scalarWidth(strings.TrimPrefix(valType, "[]"))
			if len(targs) == 2 {
				w = tw(1)
			}
		} else {
			w = tw(1)
		}
		if cw == 0 || w == 0 || len(rest) != 0 {
			return Op{}, false
		}
		return Op{K: "nums", CW: cw, W: w, E: e}, true
	case "String":
		if tw(0) == 0 || len(rest) != 0 {
			return Op{}, false
		}
		return Op{K: "vstr", PW: tw(0), E: e}, true
	case "StringList":
		if tw(0) == 0 || tw(1) == 0 || len(rest) != 0 {
			return Op{}, false
		}
		return Op{K: "vstrs", CW: tw(0), PW: tw(1), E: e}, true
	case "FixedString", "FixedStringWithPadding", "FixedStringTrimPadding":
		if e != "be" {
			return Op{}, false
		}
		op := Op{K: "fixed"}
		if !fixedArgs(&op, rest, base != "FixedString") {
			return Op{}, false
		}
		return op, true
	case "FixedStringList", "FixedStringListWithPadding", "FixedStringListTrimPadding":
		op := Op{K: "fixeds", CW: tw(0), E: e}
		if op.CW == 0 || !fixedArgs(&op, rest, base != "FixedStringList") {
			return Op{}, false
		}
		return op, true
	}
	return Op{}, false
}

func (c *ctx) opaque(n ast.Node) Op { return Op{K: "opaque", Src: src(n)} }

// "if err := X; err != nil { return ... }"
func errIf(s ast.Stmt) (ast.Expr, bool) {
	is, ok := s.(*ast.IfStmt)
	if !ok || is.Init == nil || is.Else != nil {
		return nil, false
	}
	as, ok := is.Init.(*ast.AssignStmt)
	if !ok || len(as.Lhs) != 1 || len(as.Rhs) != 1 {
		return nil, false
	}
	if id, ok := as.Lhs[0].(*ast.Ident); !ok || id.Name != "err" {
		return nil, false
	}
	if !isErrNotNil(is.Cond) || !returnsErr(is.Body) {
		return nil, false
	}
	return as.Rhs[0], true
}

func isErrNotNil(e ast.Expr) bool {
	b, ok := e.(*ast.BinaryExpr)
	if !ok || b.Op != token.NEQ {
		return false
	}
	x, ok1 := b.X.(*ast.Ident)
	y, ok2 := b.Y.(*ast.Ident)
	return ok1 && ok2 && x.Name == "err" && y.Name == "nil"
}

// body is exactly "return <something mentioning err>" (err itself or fmt.Errorf(..., err))
func returnsErr(b *ast.BlockStmt) bool {
	if len(b.List) != 1 {
		return false
	}
	r, ok := b.List[0].(*ast.ReturnStmt)
	if !ok || len(r.Results) != 1 {
		return false
	}
	found := false
	ast.Inspect(r.Results[0], func(n ast.Node) bool {
		if id, ok := n.(*ast.Ident); ok && id.Name == "err" {
			found = true
		}
		return true
	})
	if id, ok := r.Results[0].(*ast.Ident); ok && id.Name == "nil" {
		return false
	}
	return found
}

// "if val, err := X; err != nil { return err } else { p.F = val }"
func valIf(s ast.Stmt, recv string) (ast.Expr, string, bool) {
	is, ok := s.(*ast.IfStmt)
	if !ok || is.Init == nil || is.Else == nil {
		return nil, "", false
	}
	as, ok := is.Init.(*ast.AssignStmt)
	if !ok || len(as.Lhs) != 2 || len(as.Rhs) != 1 || as.Tok != token.DEFINE {
		return nil, "", false
	}
	v, ok1 := as.Lhs[0].(*ast.Ident)
	e, ok2 := as.Lhs[1].(*ast.Ident)
	if !ok1 || !ok2 || e.Name != "err" || !isErrNotNil(is.Cond) || !returnsErr(is.Body) {
		return nil, "", false
	}
	eb, ok := is.Else.(*ast.BlockStmt)
	if !ok || len(eb.List) != 1 {
		return nil, "", false
	}
	as2, ok := eb.List[0].(*ast.AssignStmt)
	if !ok || as2.Tok != token.ASSIGN || len(as2.Lhs) != 1 || len(as2.Rhs) != 1 {
		return nil, "", false
	}
	f, ok := recvField(as2.Lhs[0], recv)
	if !ok {
		return nil, "", false
	}
	if id, ok := as2.Rhs[0].(*ast.Ident); !ok || id.Name != v.Name {
		return nil, "", false
	}
	return as.Rhs[0], f, true
}

// p.F.Encode(buf) / p.F.Decode(buf)
func methodOnField(e ast.Expr, recv, method string) (string, bool) {
	c, ok := e.(*ast.CallExpr)
	if !ok || len(c.Args) != 1 || !isBuf(c.Args[0]) {
		return "", false
	}
	sel, ok := c.Fun.(*ast.SelectorExpr)
	if !ok || sel.Sel.Name != method {
		return "", false
	}
	return recvField(sel.X, recv)
}

// "if p.F == nil { p.F = &T{} }"  -> F, T
func nilMatStruct(s ast.Stmt, recv string) (string, string, bool) {
	is, ok := s.(*ast.IfStmt)
	if !ok || is.Init != nil || is.Else != nil || len(is.Body.List) != 1 {
		return "", "", false
	}
	f, ok := nilCmp(is.Cond, recv, token.EQL)
	if !ok {
		return "", "", false
	}
	as, ok := is.Body.List[0].(*ast.AssignStmt)
	if !ok || as.Tok != token.ASSIGN || len(as.Lhs) != 1 || len(as.Rhs) != 1 {
		return "", "", false
	}
	if g, ok := recvField(as.Lhs[0], recv); !ok || g != f {
		return "", "", false
	}
	t, ok := newStruct(as.Rhs[0])
	return f, t, ok
}

// &T{}  or NewT()
func newStruct(e ast.Expr) (string, bool) {
	if u, ok := e.(*ast.UnaryExpr); ok && u.Op == token.AND {
		if cl, ok := u.X.(*ast.CompositeLit); ok && len(cl.Elts) == 0 {
			if id, ok := cl.Type.(*ast.Ident); ok {
				return id.Name, true
			}
		}
	}
	if c, ok := e.(*ast.CallExpr); ok && len(c.Args) == 0 {
		if id, ok := c.Fun.(*ast.Ident); ok && strings.HasPrefix(id.Name, "New") {
			return strings.TrimPrefix(id.Name, "New"), true
		}
	}
	return "", false
}

func nilCmp(e ast.Expr, recv string, op token.Token) (string, bool) {
	b, ok := e.(*ast.BinaryExpr)
	if !ok || b.Op != op {
		return "", false
	}
	if id, ok := b.Y.(*ast.Ident); !ok || id.Name != "nil" {
		return "", false
	}
	return recvField(b.X, recv)
}

// lookup call NewXMessageByY(p.K) -> lookup name, key field
func lookupCall(e ast.Expr, recv string) (string, string, bool) {
	c, ok := e.(*ast.CallExpr)
	if !ok || len(c.Args) != 1 {
		return "", "", false
	}
	id, ok := c.Fun.(*ast.Ident)
	if !ok {
		return "", "", false
	}
	k, ok := recvField(c.Args[0], recv)
	return id.Name, k, ok
}

// "if p.F == nil { if val, err := NewX(p.K); err != nil { return err } else { p.F = val } }"
func nilMatUnion(s ast.Stmt, recv string) (f, lookup, key string, ok bool) {
	is, ok0 := s.(*ast.IfStmt)
	if !ok0 || is.Init != nil || is.Else != nil || len(is.Body.List) != 1 {
		return
	}
	f, ok0 = nilCmp(is.Cond, recv, token.EQL)
	if !ok0 {
		return
	}
	call, g, ok0 := valIf(is.Body.List[0], recv)
	if !ok0 || g != f {
		return
	}
	lookup, key, ok = lookupCall(call, recv)
	return
}

func (c *ctx) unionOp(n ast.Node, f, lookup, key, g string) Op {
	tid, ok := c.tblID(c.pi.short, lookup)
	ki, ok2 := c.fidx[key]
	if !ok || !ok2 || c.ftype[f] != "codec.BinaryCodec" {
		return c.opaque(n)
	}
	return Op{K: "union", Key: ki, Tbl: tid, TblN: c.pi.short + "." + lookup, G: g, F: f}
}

func (c *ctx) nestedOp(n ast.Node, f, g string) Op {
	ft := c.ftype[f]
	tn := strings.TrimPrefix(ft, "*")
	id, ok := c.tyID(c.pi.short, tn)
	if !ok {
		return c.opaque(n)
	}
	if !strings.HasPrefix(ft, "*") {
		g = "val"
	}
	return Op{K: "nested", Ty: id, TyN: c.pi.short + "." + tn, G: g, F: f}
}

// ---- Encode ---------------------------------------------------------------------------------------

func (c *ctx) encodeOps(fd *ast.FuncDecl) []Op {
	var ops []Op
	stmts := fd.Body.List
	for i := 0; i < len(stmts); i++ {
		s := stmts[i]
		// final "return nil"
		if r, ok := s.(*ast.ReturnStmt); ok && i == len(stmts)-1 {
			if len(r.Results) == 0 {
				continue
			}
			if id, ok := r.Results[0].(*ast.Ident); ok && len(r.Results) == 1 && id.Name == "nil" {
				continue
			}
		}
		// nil materialisation followed by p.F.Encode
		if f, t, ok := nilMatStruct(s, c.recv); ok && i+1 < len(stmts) {
			if call, ok := errIf(stmts[i+1]); ok {
				if g, ok := methodOnField(call, c.recv, "Encode"); ok && g == f && c.ftype[f] == "*"+t {
					ops = append(ops, c.nestedOp(s, f, "mat"))
					i++
					continue
				}
			}
		}
		if f, lookup, key, ok := nilMatUnion(s, c.recv); ok && i+1 < len(stmts) {
			if call, ok := errIf(stmts[i+1]); ok {
				if g, ok := methodOnField(call, c.recv, "Encode"); ok && g == f {
					ops = append(ops, c.unionOp(s, f, lookup, key, "mat"))
					i++
					continue
				}
			}
		}
		// "if p.F != nil { if err := p.F.Encode(buf); err != nil { return err } }"  (skip when absent): only frames
		// use it, they are handled by frameEncode.
		var call ast.Expr
		dropped := false
		if e, ok := errIf(s); ok {
			call = e
		} else if e, ok := errAssign(s); ok && i+1 < len(stmts) && plainErrIf(stmts[i+1]) {
			call = e
			i++
		} else if es, ok := s.(*ast.ExprStmt); ok { // hand-written: result dropped
			call = es.X
			dropped = true
		} else {
			ops = append(ops, c.opaque(s))
			continue
		}
		if f, ok := methodOnField(call, c.recv, "Encode"); ok {
			if c.ftype[f] == "codec.BinaryCodec" {
				ops = append(ops, c.opaque(s)) // union without nil handling
			} else {
				op := c.nestedOp(s, f, "none")
				if dropped && op.G != "val" {
					op = c.opaque(s)
				}
				ops = append(ops, op)
			}
			continue
		}
		if name, targs, args, ok := codecCall(call); ok && strings.HasPrefix(name, "Write") && len(args) >= 2 && isBuf(args[0]) {
			f, ok := recvField(args[1], c.recv)
			if !ok {
				ops = append(ops, c.opaque(s))
				continue
			}
			if strings.Contains(name, "ObjectList") {
				_, e := endianOf(name)
				et := strings.TrimPrefix(c.ftype[f], "[]*")
				id, ok := c.tyID(c.pi.short, et)
				if !ok || len(targs) != 1 || scalarWidth(targs[0]) == 0 || len(args) != 2 || !strings.HasPrefix(c.ftype[f], "[]*") {
					ops = append(ops, c.opaque(s))
					continue
				}
				ops = append(ops, logCall(true, name, Op{K: "objs", CW: scalarWidth(targs[0]), Ty: id, TyN: c.pi.short + "." + et, E: e, F: f}))
				continue
			}
			op, ok := c.primOp(true, name, targs, args[2:], c.ftype[f])
			if !ok || (dropped && (op.K == "vstr" || op.K == "vstrs" || op.K == "nums" || op.K == "fixeds")) {
				// a dropped error of a primitive that can fail is not the recognised shape
				ops = append(ops, c.opaque(s))
				continue
			}
			op.F = f
			ops = append(ops, op)
			continue
		}
		// binary.Write(buf, binary.BigEndian, r.F)
		if ce, ok := call.(*ast.CallExpr); ok && src(ce.Fun) == "binary.Write" && len(ce.Args) == 3 && isBuf(ce.Args[0]) {
			if f, ok := recvField(ce.Args[2], c.recv); ok {
				w := scalarWidth(c.ftype[f])
				e := ""
				switch src(ce.Args[1]) {
				case "binary.BigEndian":
					e = "be"
				case "binary.LittleEndian":
					e = "le"
				}
				if w > 0 && e != "" {
					ops = append(ops, Op{K: "scalar", W: w, E: e, F: f})
					continue
				}
			}
		}
		ops = append(ops, c.opaque(s))
	}
	return ops
}

// "if err != nil { return … err … }" without an initialiser
func plainErrIf(s ast.Stmt) bool {
	is, ok := s.(*ast.IfStmt)
	return ok && is.Init == nil && is.Else == nil && isErrNotNil(is.Cond) && returnsErr(is.Body)
}

// "X, err := CALL" / "X, err = CALL" (X an identifier or a receiver field) -> CALL, X-as-expression
func twoAssign(s ast.Stmt) (ast.Expr, ast.Expr, bool) {
	as, ok := s.(*ast.AssignStmt)
	if !ok || len(as.Lhs) != 2 || len(as.Rhs) != 1 {
		return nil, nil, false
	}
	if id, ok := as.Lhs[1].(*ast.Ident); !ok || id.Name != "err" {
		return nil, nil, false
	}
	return as.Rhs[0], as.Lhs[0], true
}

// "err := CALL" / "err = CALL"
func errAssign(s ast.Stmt) (ast.Expr, bool) {
	as, ok := s.(*ast.AssignStmt)
	if !ok || len(as.Lhs) != 1 || len(as.Rhs) != 1 {
		return nil, false
	}
	if id, ok := as.Lhs[0].(*ast.Ident); !ok || id.Name != "err" {
		return nil, false
	}
	return as.Rhs[0], true
}

// ---- Decode ---------------------------------------------------------------------------------------

// hand-written: "if r.F, err = X; err != nil { return err }"
func assignIf(s ast.Stmt, recv string) (ast.Expr, string, bool) {
	is, ok := s.(*ast.IfStmt)
	if !ok || is.Init == nil || is.Else != nil {
		return nil, "", false
	}
	as, ok := is.Init.(*ast.AssignStmt)
	if !ok || as.Tok != token.ASSIGN || len(as.Lhs) != 2 || len(as.Rhs) != 1 {
		return nil, "", false
	}
	f, ok := recvField(as.Lhs[0], recv)
	if !ok {
		return nil, "", false
	}
	if id, ok := as.Lhs[1].(*ast.Ident); !ok || id.Name != "err" {
		return nil, "", false
	}
	if !isErrNotNil(is.Cond) || !returnsErr(is.Body) {
		return nil, "", false
	}
	return as.Rhs[0], f, true
}

// "if err = r.F.Decode(buf); err != nil { return err }"
func errAssignIf(s ast.Stmt) (ast.Expr, bool) {
	is, ok := s.(*ast.IfStmt)
	if !ok || is.Init == nil || is.Else != nil {
		return nil, false
	}
	as, ok := is.Init.(*ast.AssignStmt)
	if !ok || as.Tok != token.ASSIGN || len(as.Lhs) != 1 || len(as.Rhs) != 1 {
		return nil, false
	}
	if id, ok := as.Lhs[0].(*ast.Ident); !ok || id.Name != "err" {
		return nil, false
	}
	if !isErrNotNil(is.Cond) || !returnsErr(is.Body) {
		return nil, false
	}
	return as.Rhs[0], true
}

func (c *ctx) readCallOp(s ast.Node, call ast.Expr, f string) Op {
	name, targs, args, ok := codecCall(call)
	if !ok || !strings.HasPrefix(name, "Read") || len(args) < 1 || !isBuf(args[0]) {
		return c.opaque(s)
	}
	if strings.Contains(name, "ObjectList") {
		_, e := endianOf(name)
		if len(args) != 2 || len(targs) != 1 || scalarWidth(targs[0]) == 0 {
			return c.opaque(s)
		}
		fl, ok := args[1].(*ast.FuncLit)
		if id, isID := args[1].(*ast.Ident); isID && !ok {
			// a constructor of the package used as the factory value: func NewX() *X { return &X{} }
			if ctor := c.pi.funcs[id.Name]; ctor != nil && ctor.Body != nil && ctor.Type.Params != nil && len(ctor.Type.Params.List) == 0 {
				fl, ok = &ast.FuncLit{Type: ctor.Type, Body: ctor.Body}, true
			}
		}
		if !ok || len(fl.Body.List) != 1 || len(fl.Type.Params.List) != 0 {
			return c.opaque(s)
		}
		r, ok := fl.Body.List[0].(*ast.ReturnStmt)
		if !ok || len(r.Results) != 1 {
			return c.opaque(s)
		}
		t, ok := newStruct(r.Results[0])
		id, ok2 := c.tyID(c.pi.short, t)
		if !ok || !ok2 || c.ftype[f] != "[]*"+t {
			return c.opaque(s)
		}
		return logCall(false, name, Op{K: "objs", CW: scalarWidth(targs[0]), Ty: id, TyN: c.pi.short + "." + t, E: e, F: f})
	}
	op, ok := c.primOp(false, name, targs, args[1:], "")
	if !ok {
		return c.opaque(s)
	}
	// the value must be assignable to the field: same width class
	ft := c.ftype[f]
	switch op.K {
	case "scalar":
		if scalarWidth(ft) != op.W {
			return c.opaque(s)
		}
	case "nums":
		if scalarWidth(strings.TrimPrefix(ft, "[]")) != op.W || !strings.HasPrefix(ft, "[]") {
			return c.opaque(s)
		}
	case "fixed", "vstr":
		if ft != "string" {
			return c.opaque(s)
		}
	case "fixeds", "vstrs":
		if ft != "[]string" {
			return c.opaque(s)
		}
	}
	op.F = f
	return op
}

func (c *ctx) decodeOps(fd *ast.FuncDecl) []Op {
	var ops []Op
	stmts := fd.Body.List
	for i := 0; i < len(stmts); i++ {
		s := stmts[i]
		if r, ok := s.(*ast.ReturnStmt); ok && i == len(stmts)-1 && len(r.Results) == 1 {
			if id, ok := r.Results[0].(*ast.Ident); ok && id.Name == "nil" {
				continue
			}
		}
		// "var err error"
		if ds, ok := s.(*ast.DeclStmt); ok && src(ds) == "var err error" {
			continue
		}
		// alternative shapes of a field read:  "v, err := READ; if err != nil {return err}; p.F = v"  and
		// "p.F, err = READ; if err != nil {return err}"
		if call, lhs, ok := twoAssign(s); ok && i+1 < len(stmts) && plainErrIf(stmts[i+1]) {
			if _, _, _, isCodec := codecCall(call); isCodec {
				if f, ok := recvField(lhs, c.recv); ok {
					ops = append(ops, c.readCallOp(s, call, f))
					i++
					continue
				}
				if id, ok := lhs.(*ast.Ident); ok && i+2 < len(stmts) {
					if as2, ok := stmts[i+2].(*ast.AssignStmt); ok && as2.Tok == token.ASSIGN && len(as2.Lhs) == 1 && len(as2.Rhs) == 1 {
						if f, ok := recvField(as2.Lhs[0], c.recv); ok {
							if r, ok := as2.Rhs[0].(*ast.Ident); ok && r.Name == id.Name {
								ops = append(ops, c.readCallOp(s, call, f))
								i += 2
								continue
							}
						}
					}
				}
			}
		}
		// union: factory then Decode
		if call, f, ok := valIf(s, c.recv); ok {
			if lookup, key, ok := lookupCall(call, c.recv); ok {
				if i+1 < len(stmts) {
					if call2, ok := errIf(stmts[i+1]); ok {
						if g, ok := methodOnField(call2, c.recv, "Decode"); ok && g == f {
							ops = append(ops, c.unionOp(s, f, lookup, key, "mat"))
							i++
							continue
						}
					}
				}
				ops = append(ops, c.opaque(s))
				continue
			}
			ops = append(ops, c.readCallOp(s, call, f))
			continue
		}
		if f, t, ok := nilMatStruct(s, c.recv); ok && i+1 < len(stmts) {
			if call, ok := errIf(stmts[i+1]); ok {
				if g, ok := methodOnField(call, c.recv, "Decode"); ok && g == f && c.ftype[f] == "*"+t {
					ops = append(ops, c.nestedOp(s, f, "mat"))
					i++
					continue
				}
			}
		}
		if call, f, ok := assignIf(s, c.recv); ok {
			ops = append(ops, c.readCallOp(s, call, f))
			continue
		}
		if call, ok := errAssignIf(s); ok {
			if f, ok := methodOnField(call, c.recv, "Decode"); ok && !strings.HasPrefix(c.ftype[f], "*") && c.ftype[f] != "codec.BinaryCodec" {
				ops = append(ops, c.nestedOp(s, f, "val"))
				continue
			}
		}
		ops = append(ops, c.opaque(s))
	}
	return ops
}

// ---- self-measuring frames ------------------------------------------------------------------------

// Recognises exactly:
//   [frameStart := buf.Len()]
//   hdr writes…
//   POS := buf.Len()
//   if err := codec.WriteBasicType[LE](buf, uint32(0)); …
//   START := buf.Len()
//   if p.Body != nil { if err := p.Body.Encode(buf); err != nil { return err } }
//   END := buf.Len()
//   p.Len = uint32(END - START)
//   binary.<Order>.PutUint32(buf.Bytes()[POS:POS+4], p.Len)
//   [if svc, ok := codec.Get("ALG"); ok { p.Cks = svc.(codec.ChecksumService[*bytes.Buffer, T]).Calc(bytes.NewBuffer(buf.Bytes()[frameStart:])) }
//    if err := codec.WriteBasicType[LE](buf, p.Cks); …]
//   return nil
func (c *ctx) frameEncode(fd *ast.FuncDecl) (*Frame, string) {
	stmts := fd.Body.List
	uses := false
	ast.Inspect(fd.Body, func(n ast.Node) bool {
		if s, ok := n.(*ast.SelectorExpr); ok && s.Sel.Name == "PutUint32" {
			uses = true
		}
		if s, ok := n.(*ast.SelectorExpr); ok && s.Sel.Name == "Len" {
			uses = true
		}
		return true
	})
	if !uses {
		return nil, ""
	}
	fr := &Frame{}
	fail := func(why string, n ast.Node) (*Frame, string) {
		if n != nil {
			why += ": " + src(n)
		}
		return nil, why
	}
	lenVar := func(s ast.Stmt) (string, bool) { // X := buf.Len()
		as, ok := s.(*ast.AssignStmt)
		if !ok || as.Tok != token.DEFINE || len(as.Lhs) != 1 || len(as.Rhs) != 1 || src(as.Rhs[0]) != "buf.Len()" {
			return "", false
		}
		id, ok := as.Lhs[0].(*ast.Ident)
		if !ok {
			return "", false
		}
		return id.Name, true
	}
	i := 0
	frameStart := ""
	if v, ok := lenVar(stmts[i]); ok {
		// could be frameStart or (if no header) the position variable; frames here always have a header
		frameStart = v
		i++
	}
	// header
	for ; i < len(stmts); i++ {
		call, ok := errIf(stmts[i])
		if !ok {
			break
		}
		name, targs, args, ok := codecCall(call)
		if !ok || len(args) != 2 || !isBuf(args[0]) {
			return fail("header statement", stmts[i])
		}
		f, ok := recvField(args[1], c.recv)
		if !ok {
			return fail("header statement", stmts[i])
		}
		op, ok := c.primOp(true, name, targs, nil, c.ftype[f])
		if !ok || op.K != "scalar" {
			return fail("header statement", stmts[i])
		}
		op.F = f
		if c.fidx[f] != len(fr.Hdr) {
			return fail("header field order", stmts[i])
		}
		fr.Hdr = append(fr.Hdr, op)
	}
	need := func(n int) bool { return i+n <= len(stmts) }
	if !need(7) {
		return fail("frame too short", nil)
	}
	pos, ok := lenVar(stmts[i])
	if !ok {
		return fail("position variable", stmts[i])
	}
	i++
	call, ok := errIf(stmts[i])
	if !ok {
		return fail("placeholder", stmts[i])
	}
	name, targs, args, ok := codecCall(call)
	if !ok || len(args) != 2 || !isBuf(args[0]) || src(args[1]) != "uint32(0)" {
		return fail("placeholder", stmts[i])
	}
	pop, ok := c.primOp(true, name, targs, nil, "uint32")
	if !ok || pop.K != "scalar" || pop.W != 4 {
		return fail("placeholder", stmts[i])
	}
	fr.LenW, fr.E = 4, pop.E
	i++
	start, ok := lenVar(stmts[i])
	if !ok {
		return fail("start variable", stmts[i])
	}
	i++
	// body
	is, ok := stmts[i].(*ast.IfStmt)
	if !ok || is.Init != nil || is.Else != nil || len(is.Body.List) != 1 {
		return fail("body statement", stmts[i])
	}
	bf, ok := nilCmp(is.Cond, c.recv, token.NEQ)
	if !ok {
		return fail("body statement", stmts[i])
	}
	bcall, ok := errIf(is.Body.List[0])
	if !ok {
		return fail("body statement", stmts[i])
	}
	if g, ok := methodOnField(bcall, c.recv, "Encode"); !ok || g != bf || c.ftype[bf] != "codec.BinaryCodec" {
		return fail("body statement", stmts[i])
	}
	if c.fidx[bf] != len(fr.Hdr)+1 {
		return fail("body field position", stmts[i])
	}
	fr.G = "skip"
	i++
	end, ok := lenVar(stmts[i])
	if !ok {
		return fail("end variable", stmts[i])
	}
	i++
	// p.Len = uint32(END - START)
	lenField := c.fields[len(fr.Hdr)].Name
	if src(stmts[i]) != fmt.Sprintf("%s.%s = uint32(%s - %s)", c.recv, lenField, end, start) {
		return fail("length assignment", stmts[i])
	}
	i++
	order := map[string]string{"be": "BigEndian", "le": "LittleEndian"}[fr.E]
	if src(stmts[i]) != fmt.Sprintf("binary.%s.PutUint32(buf.Bytes()[%s:%s+4], %s.%s)", order, pos, pos, c.recv, lenField) {
		return fail("length patch", stmts[i])
	}
	i++
	fr.Facts = append(fr.Facts, "placeholder-width-4", "patch-at-remembered-offset", "patch-order-matches-placeholder", "length=end-start")
	if c.ftype[lenField] != "uint32" {
		return fail("length field type", nil)
	}
	// checksum
	if i < len(stmts) {
		if is, ok := stmts[i].(*ast.IfStmt); ok && is.Init != nil && isGetInit(is.Init) {
			as := is.Init.(*ast.AssignStmt)
			gc := as.Rhs[0].(*ast.CallExpr)
			svcVar := as.Lhs[0].(*ast.Ident).Name
			alg, ok := strLit(gc.Args[0])
			if !ok || src(is.Cond) != "ok" || len(is.Body.List) != 1 || is.Else != nil {
				return fail("checksum block", stmts[i])
			}
			if i+1 >= len(stmts) {
				return fail("checksum trailer missing", nil)
			}
			tcall, ok := errIf(stmts[i+1])
			if !ok {
				return fail("checksum trailer", stmts[i+1])
			}
			name, targs, args, ok := codecCall(tcall)
			if !ok || len(args) != 2 || !isBuf(args[0]) {
				return fail("checksum trailer", stmts[i+1])
			}
			cf, ok := recvField(args[1], c.recv)
			if !ok || c.fidx[cf] != len(fr.Hdr)+2 {
				return fail("checksum trailer", stmts[i+1])
			}
			top, ok := c.primOp(true, name, targs, nil, c.ftype[cf])
			if !ok || top.K != "scalar" || top.E != fr.E {
				return fail("checksum trailer", stmts[i+1])
			}
			want := fmt.Sprintf("%s.%s = %s.(codec.ChecksumService[*bytes.Buffer, %s]).Calc(bytes.NewBuffer(buf.Bytes()[%s:]))", c.recv, cf, svcVar, c.ftype[cf], frameStart)
			if frameStart == "" || src2(is.Body.List[0]) != want {
				return fail("checksum span/type", is.Body.List[0])
			}
			fr.Cks, fr.CksW = alg, top.W
			fr.Facts = append(fr.Facts, "checksum-after-patch", "checksum-from-frame-start", "checksum-result-type-matches-field")
			i += 2
		}
	}
	if fr.Cks == "" && frameStart != "" {
		// first Len() variable was actually unused for a checksum: tolerate only if it is the position variable shape
		return fail("unexpected leading buf.Len()", nil)
	}
	if i != len(stmts)-1 || src(stmts[i]) != "return nil" {
		return fail("trailing statements", stmts[min(i, len(stmts)-1)])
	}
	// key = the field used by the decoder's lookup; filled by caller
	return fr, ""
}

// `SVC, ok := codec.Get(<one argument>)`
func isGetInit(s ast.Stmt) bool {
	as, ok := s.(*ast.AssignStmt)
	if !ok || as.Tok != token.DEFINE || len(as.Lhs) != 2 || len(as.Rhs) != 1 {
		return false
	}
	a, ok1 := as.Lhs[0].(*ast.Ident)
	b, ok2 := as.Lhs[1].(*ast.Ident)
	if !ok1 || !ok2 || a.Name == "_" || b.Name != "ok" {
		return false
	}
	name, _, args, ok := codecCall(as.Rhs[0])
	return ok && name == "Get" && len(args) == 1
}

func hasOpaque(ops []Op) bool {
	for _, o := range ops {
		if o.K == "opaque" {
			return true
		}
	}
	return false
}

func uses(n ast.Node, sel string) bool {
	found := false
	ast.Inspect(n, func(x ast.Node) bool {
		if s, ok := x.(*ast.SelectorExpr); ok && s.Sel.Name == sel {
			found = true
		}
		return true
	})
	return found
}

func opsEqual(a, b []Op) bool {
	if len(a) != len(b) {
		return false
	}
	for i := range a {
		x, y := a[i], b[i]
		x.Src, y.Src = "", ""
		if x != y {
			return false
		}
	}
	return true
}

var symCheck = os.Getenv("XLATE_SYMCHECK") != ""

// methods on which the shape recognisers and the symbolic executor are BOTH complete and disagree (always computed; a
// non-empty list means one of the two translators misreads the code: reported as a fact of every property)
var symDiffs = []string{}

// withSymex: the recognisers' op list stands when it is complete; when it contains an unrecognised statement the
// symbolic executor's answer is taken if IT recognises the whole body.  (XLATE_SYMCHECK=1 runs both on every method and
// reports where they differ: they must agree wherever both are complete.)
func (c *ctx) withSymex(sc *Schema, t *Type, fd *ast.FuncDecl, write bool, legacy []Op) []Op {
	dir := map[bool]string{true: "Encode", false: "Decode"}[write]
	ops, why := c.symOps(fd, write)
	if why == "" && !hasOpaque(legacy) && !opsEqual(ops, legacy) {
		symDiffs = append(symDiffs, fmt.Sprintf("%s.%s.%s", t.Pkg, t.Name, dir))
	}
	if symCheck {
		switch {
		case why != "" && !hasOpaque(legacy):
			fmt.Fprintf(os.Stderr, "symcheck %s.%s.%s: executor gave up (%s), recognisers complete\n", t.Pkg, t.Name, dir, why)
		case why == "" && !hasOpaque(legacy) && !opsEqual(ops, legacy):
			fmt.Fprintf(os.Stderr, "symcheck %s.%s.%s: DIFFERENT\n  exec: %v\n  reco: %v\n", t.Pkg, t.Name, dir, ops, legacy)
		}
	}
	if !hasOpaque(legacy) {
		return legacy
	}
	if why != "" {
		sc.Notes = append(sc.Notes, fmt.Sprintf("%s.%s.%s: not recognised; symbolic execution gave up: %s", t.Pkg, t.Name, dir, why))
		return legacy
	}
	sc.Notes = append(sc.Notes, fmt.Sprintf("%s.%s.%s: op list obtained by symbolic execution", t.Pkg, t.Name, dir))
	return ops
}

func src2(n ast.Node) string {
	var b bytes.Buffer
	printer.Fprint(&b, fset, n)
	return strings.Join(strings.Fields(b.String()), " ")
}

// ---- tables ---------------------------------------------------------------------------------------

func (pi *pkgInfo) tables(sc *Schema, tyID func(pkg, name string) (int, bool)) {
	// lookup functions: func NewX(key K) (codec.BinaryCodec, error) { if factory, ok := CACHE[key]; ok {...} }
	type lk struct{ name, cache, kind, kt string }
	var lks []lk
	curConsts, curStrConsts = pi.consts, pi.strs
	var sigNames []string
	for name := range pi.funcs {
		sigNames = append(sigNames, name)
	}
	sort.Strings(sigNames)
	for _, name := range sigNames {
		fd := pi.funcs[name]
		if ast.IsExported(name) && fd.Type.TypeParams == nil && fd.Type.Params != nil && len(fd.Type.Params.List) == 1 && len(fd.Type.Params.List[0].Names) == 1 && fd.Type.Results != nil && len(fd.Type.Results.List) == 2 &&
			typeStr(fd.Type.Results.List[0].Type) == "codec.BinaryCodec" && typeStr(fd.Type.Results.List[1].Type) == "error" {
			if kt := typeStr(fd.Type.Params.List[0].Type); kt == "string" || (scalarWidth(kt) > 0 && !strings.HasPrefix(kt, "float")) {
				sc.LookupSigs = append(sc.LookupSigs, LookupSig{pi.short, name, kt})
			}
		}
	}
	for _, name := range sigNames {
		fd := pi.funcs[name]
		if ast.IsExported(name) && fd.Type.TypeParams == nil && fd.Type.Results == nil && fd.Type.Params != nil {
			var pts []string
			for _, p := range fd.Type.Params.List {
				for k := 0; k < max(1, len(p.Names)); k++ {
					pts = append(pts, typeStr(p.Type))
				}
			}
			if len(pts) == 2 && (pts[0] == "string" || (scalarWidth(pts[0]) > 0 && !strings.HasPrefix(pts[0], "float"))) && strings.ReplaceAll(pts[1], " ", "") == "?func()codec.BinaryCodec" {
				sc.RegSigs = append(sc.RegSigs, RegSig{pi.short, name, pts[0]})
			}
		}
	}
	for name, fd := range pi.funcs {
		if fd.Type.Params == nil || len(fd.Type.Params.List) != 1 || fd.Type.Results == nil || len(fd.Type.Results.List) != 2 {
			continue
		}
		if len(fd.Type.Params.List[0].Names) != 1 {
			continue
		}
		cacheName, shape := lookupShape(fd)
		if shape == "" {
			continue // not a function that reads a map at its parameter
		}
		if shape == "?" {
			if c2, ok := lookupSym(fd); ok && c2 == cacheName {
				shape = "S"
				sc.Notes = append(sc.Notes, "lookup function "+pi.short+"."+name+" recognised by path-wise execution")
			} else {
				sc.Notes = append(sc.Notes, "unrecognised lookup function "+pi.short+"."+name)
				continue
			}
		}
		cache := ast.NewIdent(cacheName)
		kt := typeStr(fd.Type.Params.List[0].Type)
		kind := "num"
		if kt == "string" {
			kind = "str"
		} else if scalarWidth(kt) == 0 {
			continue
		}
		lks = append(lks, lk{name, cache.Name, kind, kt})
	}
	sort.Slice(lks, func(i, j int) bool { return lks[i].name < lks[j].name })
	for _, l := range lks {
		// registration function: func RegX(k K, factory func() codec.BinaryCodec) { CACHE[k] = factory }
		reg := ""
		for name, fd := range pi.funcs {
			if len(fd.Body.List) == 1 && fd.Type.Params != nil && len(fd.Type.Params.List) == 2 {
				p0 := fd.Type.Params.List[0].Names[0].Name
				p1 := fd.Type.Params.List[1].Names[0].Name
				if src2(fd.Body.List[0]) == fmt.Sprintf("%s[%s] = %s", l.cache, p0, p1) {
					reg = name
				}
			}
		}
		t := &Table{ID: len(sc.Tables), Pkg: pi.short, Lookup: l.name, Reg: reg, KeyKind: l.kind, KeyType: l.kt}
		// registrations anywhere in init functions of the package (file order = sorted file names)
		var inits []string
		for name := range pi.funcs {
			if strings.HasPrefix(name, "init#") {
				inits = append(inits, name)
			}
		}
		sort.Slice(inits, func(i, j int) bool {
			a, _ := strconv.Atoi(inits[i][5:])
			b, _ := strconv.Atoi(inits[j][5:])
			return a < b
		})
		entryOf := func(keyE, facE ast.Expr) Entry {
			key := ""
			if l.kind == "num" {
				v, ok := intLit(keyE)
				if !ok {
					key = "?" + src(keyE)
				} else {
					key = strconv.Itoa(v)
				}
			} else {
				sv, ok := strLit(keyE)
				if !ok {
					key = "?" + src(keyE)
				} else {
					key = fmt.Sprintf("%x", sv)
					if key == "" {
						key = "-"
					}
				}
			}
			tn := "?"
			tid := -1
			if fl, ok := facE.(*ast.FuncLit); ok && len(fl.Body.List) == 1 {
				if r, ok := fl.Body.List[0].(*ast.ReturnStmt); ok && len(r.Results) == 1 {
					if n, ok := newStruct(r.Results[0]); ok {
						if id, ok := tyID(pi.short, n); ok {
							tn, tid = pi.short+"."+n, id
						}
					}
				}
			}
			return Entry{Key: key, Ty: tid, TyN: tn}
		}
		// entries written into the map's own composite literal (`var cache = map[K]func() codec.BinaryCodec{k: f, …}`) are
		// there before any init function runs
		if lit, ok := pi.mapLits[l.cache]; ok {
			for _, el := range lit.Elts {
				kv, ok := el.(*ast.KeyValueExpr)
				if !ok {
					t.Entries = append(t.Entries, Entry{Key: "?" + src(el), Ty: -1, TyN: "?"})
					continue
				}
				t.Entries = append(t.Entries, entryOf(kv.Key, kv.Value))
			}
		}
		for _, in := range inits {
			var calls []*ast.CallExpr
			if !initCalls(pi.funcs[in].Body.List, map[string]ast.Expr{}, &calls) {
				// an init function with statements other than calls / literal loops: read its top-level calls only
				calls = nil
				for _, s := range pi.funcs[in].Body.List {
					if es, ok := s.(*ast.ExprStmt); ok {
						if ce, ok := es.X.(*ast.CallExpr); ok {
							calls = append(calls, ce)
						}
					} else if _, isRange := s.(*ast.RangeStmt); isRange {
						t.Entries = append(t.Entries, Entry{Key: "?loop", Ty: -1, TyN: "?"})
					}
				}
			}
			for _, ce := range calls {
				if len(ce.Args) != 2 {
					continue
				}
				if id, ok := ce.Fun.(*ast.Ident); !ok || id.Name != reg {
					continue
				}
				t.Entries = append(t.Entries, entryOf(ce.Args[0], ce.Args[1]))
			}
		}
		sc.Tables = append(sc.Tables, t)
	}
}

// the arguments of an error constructor are literals or plain identifiers (an index or slice expression can panic, a call
// can do anything)
func plainArgs(c *ast.CallExpr) bool {
	for _, a := range c.Args {
		switch a.(type) {
		case *ast.BasicLit, *ast.Ident:
		default:
			return false
		}
	}
	return true
}

// lookupShape recognises the two spellings of a discriminator look-up (names are irrelevant):
//   A:  if f, ok := CACHE[key]; ok { return f(), nil }; return nil, <fresh error>
//   B:  f, ok := CACHE[key]; if !ok { return nil, <fresh error> }; return f(), nil
// It returns the map's name and "A"/"B", ("", "") when the function does not index a package map by its parameter at all,
// and (name, "?") when it does but in another way.
func lookupShape(fd *ast.FuncDecl) (string, string) {
	key := fd.Type.Params.List[0].Names[0].Name
	cache := ""
	ast.Inspect(fd.Body, func(n ast.Node) bool {
		if ix, ok := n.(*ast.IndexExpr); ok {
			if m, ok := ix.X.(*ast.Ident); ok {
				if k, ok := ix.Index.(*ast.Ident); ok && k.Name == key && cache == "" {
					cache = m.Name
				}
			}
		}
		return true
	})
	if cache == "" {
		return "", ""
	}
	load := func(s ast.Stmt) (f, okn string, good bool) {
		as, ok := s.(*ast.AssignStmt)
		if !ok || as.Tok != token.DEFINE || len(as.Lhs) != 2 || len(as.Rhs) != 1 {
			return
		}
		ix, ok := as.Rhs[0].(*ast.IndexExpr)
		if !ok || src(ix.X) != cache || src(ix.Index) != key {
			return
		}
		a, ok1 := as.Lhs[0].(*ast.Ident)
		b, ok2 := as.Lhs[1].(*ast.Ident)
		if !ok1 || !ok2 || a.Name == "_" || b.Name == "_" {
			return
		}
		return a.Name, b.Name, true
	}
	retCall := func(s ast.Stmt, f string) bool { // return f(), nil
		r, ok := s.(*ast.ReturnStmt)
		if !ok || len(r.Results) != 2 || src(r.Results[1]) != "nil" {
			return false
		}
		c, ok := r.Results[0].(*ast.CallExpr)
		return ok && len(c.Args) == 0 && src(c.Fun) == f
	}
	retErr := func(s ast.Stmt) bool { // return nil, fmt.Errorf(...) / errors.New(...)
		r, ok := s.(*ast.ReturnStmt)
		if !ok || len(r.Results) != 2 || src(r.Results[0]) != "nil" {
			return false
		}
		c, ok := r.Results[1].(*ast.CallExpr)
		return ok && (src(c.Fun) == "fmt.Errorf" || src(c.Fun) == "errors.New") && plainArgs(c)
	}
	b := fd.Body.List
	if len(b) == 2 {
		if is, ok := b[0].(*ast.IfStmt); ok && is.Init != nil && is.Else == nil && len(is.Body.List) == 1 {
			if f, okn, good := load(is.Init); good && src(is.Cond) == okn && retCall(is.Body.List[0], f) && retErr(b[1]) {
				return cache, "A"
			}
		}
	}
	if len(b) == 3 {
		if f, okn, good := load(b[0]); good {
			if is, ok := b[1].(*ast.IfStmt); ok && is.Init == nil && is.Else == nil && len(is.Body.List) == 1 && src(is.Cond) == "!"+okn &&
				retErr(is.Body.List[0]) && retCall(b[2], f) {
				return cache, "B"
			}
		}
	}
	return cache, "?"
}

// ---- main -----------------------------------------------------------------------------------------

func main() {
	root := flag.String("repo", "/repo", "repository root")
	outJSON := flag.String("json", "", "schema.json output")
	outLean := flag.String("lean", "", "Lean data output")
	leanNS := flag.String("ns", "Gen", "Lean namespace")
	outGo := flag.String("go", "", "Go type registry output (for the harness)")
	outFacts := flag.String("facts", "", "facts.json output (facts about codec/*.go and package-level state)")
	outLock := flag.String("leanlock", "", "Lean data output: the registry functions as lock programs (GenLock.lean)")
	outCodec := flag.String("leancodec", "", "Lean data output: codec/*.go translated into GoIR (GenCodec.lean)")
	codecNS := flag.String("codecns", "Gen", "Lean namespace of the GoIR output")
	flag.Parse()


	sc := &Schema{}
	infos := map[string]*pkgInfo{}
	ids := map[string]int{}
	for _, p := range pkgs {
		pi := loadPkg(*root, p.short, p.dir)
		infos[p.short] = pi
		names := append([]string{}, pi.order...)
		sort.Strings(names)
		for _, n := range names {
			m := pi.methods[n]
			if m == nil || m["Encode"] == nil || m["Decode"] == nil {
				continue // not a codec type (e.g. helper struct)
			}
			t := &Type{ID: len(sc.Types), Pkg: p.short, Name: n, Hand: pi.hand[n]}
			ids[p.short+"."+n] = t.ID
			sc.Types = append(sc.Types, t)
		}
	}
	tyID := func(pkg, name string) (int, bool) { id, ok := ids[pkg+"."+name]; return id, ok }
	for _, p := range pkgs {
		infos[p.short].tables(sc, tyID)
	}
	tblID := func(pkg, lookup string) (int, bool) {
		for _, t := range sc.Tables {
			if t.Pkg == pkg && t.Lookup == lookup {
				return t.ID, true
			}
		}
		return 0, false
	}
	for _, t := range sc.Types {
		pi := infos[t.Pkg]
		st := pi.structs[t.Name]
		c := &ctx{pi: pi, tyName: t.Name, ftype: map[string]string{}, fidx: map[string]int{}, tyID: tyID, tblID: tblID}
		for _, f := range st.Fields.List {
			for _, n := range f.Names {
				c.fidx[n.Name] = len(t.Fields)
				c.ftype[n.Name] = typeStr(f.Type)
				t.Fields = append(t.Fields, Field{n.Name, typeStr(f.Type)})
			}
			if len(f.Names) == 0 {
				t.Fields = append(t.Fields, Field{"?embedded", typeStr(f.Type)})
			}
		}
		if t.Fields == nil {
			t.Fields = []Field{}
		}
		c.fields = t.Fields
		enc, dec := pi.methods[t.Name]["Encode"], pi.methods[t.Name]["Decode"]
		_, t.Ctor = pi.funcs["New"+t.Name]
		t.Codec = enc.Type.Results != nil && len(enc.Type.Results.List) == 1
		recvName := func(fd *ast.FuncDecl) string {
			if len(fd.Recv.List[0].Names) == 1 {
				return fd.Recv.List[0].Names[0].Name
			}
			return "_"
		}
		curConsts, curStrConsts = pi.consts, pi.strs
		pi.normaliseMethod(t.Name, dec, 0)
		pi.normaliseMethod(t.Name, enc, 0)
		c.recv = recvName(dec)
		t.Dec = c.decodeOps(dec)
		t.Dec = c.withSymex(sc, t, dec, false, t.Dec)
		c.recv = recvName(enc)
		fr, why := c.frameEncode(enc)
		if fr == nil && why != "" {
			// the recogniser does not know this spelling of a frame: run it symbolically
			if sf, swhy := c.symFrame(enc); sf != nil {
				fr, why = sf, ""
				sc.Notes = append(sc.Notes, fmt.Sprintf("%s.%s.Encode: frame descriptor obtained by symbolic execution", t.Pkg, t.Name))
			} else {
				why += "; symbolic execution gave up: " + swhy
			}
		} else if fr != nil {
			if sf, swhy := c.symFrame(enc); sf == nil {
				if symCheck {
					fmt.Fprintf(os.Stderr, "symcheck %s.%s.Encode (frame): executor gave up (%s)\n", t.Pkg, t.Name, swhy)
				}
			} else if fmt.Sprint(*sf) != fmt.Sprint(*fr) {
				symDiffs = append(symDiffs, fmt.Sprintf("%s.%s.Encode (frame)", t.Pkg, t.Name))
				if symCheck {
					fmt.Fprintf(os.Stderr, "symcheck %s.%s.Encode (frame): DIFFERENT\n  exec: %v\n  reco: %v\n", t.Pkg, t.Name, *sf, *fr)
				}
			}
		}
		if fr != nil {
			// key/table from the decoder's union op, which must sit right after the length field
			k := len(fr.Hdr) + 1
			if k < len(t.Dec) && t.Dec[k].K == "union" {
				fr.Key, fr.Tbl = t.Dec[k].Key, t.Dec[k].Tbl
			} else {
				why = "decoder has no union after the length field"
				fr = nil
			}
		}
		if fr != nil {
			t.Frame = fr
			t.Enc = []Op{}
		} else {
			t.Enc = c.encodeOps(enc)
			if !uses(enc, "PutUint32") {
				t.Enc = c.withSymex(sc, t, enc, true, t.Enc)
			}
			if why != "" {
				sc.Notes = append(sc.Notes, fmt.Sprintf("%s.%s: frame shape not recognised (%s)", t.Pkg, t.Name, why))
			}
		}
		// statement i must read / write field i: the model identifies an op with its position in the struct
		for _, ops := range [][]Op{t.Enc, t.Dec} {
			for i := range ops {
				if ops[i].K != "opaque" && (i >= len(t.Fields) || ops[i].F != t.Fields[i].Name) {
					ops[i] = Op{K: "opaque", Src: fmt.Sprintf("statement %d handles field %q, not the struct's field %d", i, ops[i].F, i)}
				}
			}
		}
		if t.Enc == nil {
			t.Enc = []Op{}
		}
		if t.Dec == nil {
			t.Dec = []Op{}
		}
	}
	if *outJSON != "" {
		b, _ := json.MarshalIndent(sc, "", " ")
		os.WriteFile(*outJSON, b, 0o644)
	}
	if *outLean != "" {
		os.WriteFile(*outLean, []byte(emitLean(sc, *leanNS)), 0o644)
	}
	if *outGo != "" {
		os.WriteFile(*outGo, []byte(emitGo(sc)), 0o644)
	}
	if *outFacts != "" || *outLock != "" {
		fx := extractFacts(*root)
		fx.SymDiffs = symDiffs
		if *outFacts != "" {
			b, _ := json.MarshalIndent(fx, "", " ")
			os.WriteFile(*outFacts, b, 0o644)
		}
		if *outLock != "" {
			prog := func(name string) string {
				st := fx.LockStmts[name]
				if st == nil {
					return "[.opaque]"
				}
				var parts []string
				for _, x := range st {
					parts = append(parts, "."+x)
				}
				return "[" + strings.Join(parts, ", ") + "]"
			}
			var rnames []string
			for k := range fx.MemProgs {
				rnames = append(rnames, k)
			}
			sort.Strings(rnames)
			mem := "\n/-- the memory instructions of every reader primitive of codec/binary_codec.go, in source order: " + strings.Join(rnames, ", ") + " -/\ndef readerProgs : List FinProto.Alias.Prog := [\n"
			first := true
			for _, k := range rnames {
				for _, pr := range fx.MemProgs[k] {
					if !first {
						mem += ",\n"
					}
					first = false
					mem += "  [" + strings.Join(pr, ", ") + "]"
				}
			}
			mem += "]\n"
			defs, extra := primDefs(*root)
			mem += "\n/-- every primitive of codec/binary_codec.go, its whole body matched against the template of its kind (order = CodecProg.primNames)" +
				"; other functions in the package: " + strings.Join(extra, ", ") + " -/\ndef prims : List FinProto.PrimDef := [\n  " + strings.Join(defs, ",\n  ") + "]\n" +
				"\n/-- the Calc bodies of the CRC16 / CRC32 / SSE_BIN / SZSE_BIN services, template-translated -/\ndef cksDefs : List FinProto.CksDef := [" + strings.Join(cksDefs(*root), ", ") + "]\n"
			src := "-- generated by xlate from codec/checksum.go and codec/binary_codec.go; do not edit\nimport FinProto.LockProg\nimport FinProto.Alias\nimport FinProto.CodecProg\nnamespace FinProto.Gen\nopen FinProto.Reg\n\n" +
				"/-- the bodies of Registry / Get / Remove / Clear as lock programs -/\ndef lockProgs : Progs :=\n  { reg := " + prog("Registry") + ",\n    get := " + prog("Get") +
				",\n    remove := " + prog("Remove") + ",\n    clear := " + prog("Clear") + " }\n" + mem + "\nend FinProto.Gen\n"
			os.WriteFile(*outLock, []byte(src), 0o644)
		}
	}
	if *outCodec != "" {
		srcIR, summary := emitGoIR(*root, *codecNS)
		if *codecNS == "Gen" {
			var calls []string
			for k := range callLog {
				calls = append(calls, k)
			}
			sort.Strings(calls)
			srcIR = strings.Replace(srcIR, "import FinProto.GoIR\n", "import FinProto.GoIR\nimport FinProto.Schema\n", 1)
			srcIR = strings.Replace(srcIR, "\nend FinProto.Gen\n", "\n/-- every (is a write, codec function called, op it was read as) in the Encode / Decode bodies of the message types -/\ndef calls : List (Bool × String × FinProto.Op) := [\n  "+strings.Join(calls, ",\n  ")+"]\n\nend FinProto.Gen\n", 1)
		}
		os.WriteFile(*outCodec, []byte(srcIR), 0o644)
		for _, l := range summary {
			fmt.Fprintln(os.Stderr, "goir:", l)
		}
	}
	nOpaque := 0
	for _, t := range sc.Types {
		for _, o := range append(append([]Op{}, t.Enc...), t.Dec...) {
			if o.K == "opaque" {
				nOpaque++
				fmt.Fprintf(os.Stderr, "opaque in %s.%s: %s\n", t.Pkg, t.Name, o.Src)
			}
		}
	}
	nKeys := 0
	for _, t := range sc.Tables {
		nKeys += len(t.Entries)
	}
	for _, n := range sc.Notes {
		fmt.Fprintln(os.Stderr, "note:", n)
	}
	fmt.Printf("xlate: %d types, %d tables, %d keys, %d opaque statements\n", len(sc.Types), len(sc.Tables), nKeys, nOpaque)
}
