package main

// A small symbolic executor for the bodies of Encode / Decode methods.
//
// The statement recognisers of main.go match the shapes the generator emits.  This executor instead RUNS a method body on
// symbolic inputs and reads the op list off the sequence of codec calls it makes, so that behaviour-preserving rewritings
// (renamed locals, early returns instead of if/else, extracted helper methods, shared error variables, named results,
// tail calls) yield the same op list.  It is used when it recognises every statement; otherwise the recognisers' answer
// (with `opaque` for what they do not know) stands.
//
// What is executed:  one SUCCESS path per combination of "is this pointer / interface field nil?" answers, and for every
// call that can fail one FAILURE path on which that call returns a non-nil error.  A body is accepted when
//   * on every success path it returns nil and performs the same sequence of calls;
//   * every value read is stored, unchanged, into exactly one field of the receiver;
//   * on every failure path no further codec call is made and a non-nil error is returned;
//   * absent pointer fields are handled in one of the known ways (dereferenced, materialised, skipped).
// Everything else (loops, arithmetic on values, unknown calls, goto, defer, closures other than the list factory) makes
// the executor give up.

import (
	"fmt"
	"go/ast"
	"go/token"
	"strings"
)

type sv struct {
	k   string // val err nil field new lookupval zero errnew  |  frames: mark span cks svc bool const
	ev  int    // event index (val, err, lookupval, cks); mark: number of calls made before the position was taken
	f   string // field name (field) / type name (new) / algorithm (svc)
	ev2 int    // span: the start mark's position (ev is the end mark's)
	off int    // mark: constant added to the position;  const: the value
	b   bool   // bool
	t   string // svc: the type the service value was asserted to
	// win: a window buf.Bytes()[lo:hi] kept in a local (ev/off = lo mark, ev2 = width once known)
}

type sevent struct {
	kind   string // read write lookup decode encode binwrite
	call   ast.Expr
	node   ast.Node
	field  string // decode/encode: the field whose method is called; write/binwrite: the source field
	at     sv     // decode/encode: what the field held at the time of the call
	lookup string
	key    string
	failed bool
	raw    *Op // rawwrite: the scalar written directly into the buffer
	noErr  bool // the called method has no error result (hand-written SubOrder.Encode)
}

// lexical scopes: `:=` declares in the innermost scope, `=` assigns to the nearest scope that has the name
type scope struct {
	vars   map[string]sv
	parent *scope
}

func (s *scope) get(n string) (sv, bool) {
	for x := s; x != nil; x = x.parent {
		if v, ok := x.vars[n]; ok {
			return v, true
		}
	}
	return sv{}, false
}

func (s *scope) set(n string, v sv, define bool) bool {
	if define {
		s.vars[n] = v
		return true
	}
	for x := s; x != nil; x = x.parent {
		if _, ok := x.vars[n]; ok {
			x.vars[n] = v
			return true
		}
	}
	return false
}

type sframe struct {
	recv, buf string
	sc        *scope
	named     string // named error result, if any
}

func (fr *sframe) push() { fr.sc = &scope{vars: map[string]sv{}, parent: fr.sc} }
func (fr *sframe) pop()  { fr.sc = fr.sc.parent }

type srun struct {
	c       *ctx
	write   bool
	fields  map[string]sv
	assigns []string // fields assigned, in order
	events  []sevent
	dec     []bool   // answers to nil questions, in the order asked
	asked   []string // fields asked about
	askMemo map[string]bool
	failAt  int
	failed  bool
	bad     string
	depth   int
	news    int // number of objects created so far (each `new` value carries its number in ev)
	objs    []sobj
	// explicit byte stores into a window of the buffer (`w[0] = byte(n >> 24)` …): window position -> index -> shift, and
	// the value stored
	stores   map[int]map[int]int
	storeVal map[int]sv
}

func (r *srun) newObj(t string) sv {
	r.news++
	return sv{k: "new", f: t, ev: r.news}
}

type symGiveUp struct{ why string }

func (r *srun) giveUp(format string, a ...any) {
	panic(symGiveUp{fmt.Sprintf(format, a...)})
}

func (r *srun) isNilField(f string) bool {
	if v, ok := r.askMemo[f]; ok {
		return v
	}
	i := len(r.asked)
	r.asked = append(r.asked, f)
	ans := false
	if i < len(r.dec) {
		ans = r.dec[i]
	}
	r.askMemo[f] = ans
	return ans
}

func (r *srun) fieldVal(f string) sv {
	if v, ok := r.fields[f]; ok {
		return v
	}
	return sv{k: "field", f: f}
}

func isPtrLike(t string) bool { return strings.HasPrefix(t, "*") || t == "codec.BinaryCodec" }

// nilness of a symbolic value: 1 nil, 0 non-nil, -1 unknown
func (r *srun) nilness(v sv) int {
	switch v.k {
	case "nil", "zero":
		return 1
	case "new", "errnew":
		return 0
	case "err":
		if r.events[v.ev].failed {
			return 0
		}
		return 1
	case "lookupval", "val":
		if r.events[v.ev].failed {
			return 1
		}
		if v.k == "lookupval" {
			return 0
		}
		return -1
	case "field":
		if !isPtrLike(r.c.ftype[v.f]) {
			return -1
		}
		if r.isNilField(v.f) {
			return 1
		}
		return 0
	}
	return -1
}

func (r *srun) newEvent(e sevent) int {
	if r.failed {
		r.giveUp("codec call after a failed call: %s", src(e.node))
	}
	i := len(r.events)
	if i == r.failAt {
		e.failed = true
		r.failed = true
	}
	r.events = append(r.events, e)
	return i
}

func (r *srun) recvField(fr *sframe, e ast.Expr) (string, bool) {
	if f, ok := recvField(e, fr.recv); ok && fr.recv != "" {
		return f, true
	}
	// a local or a parameter that holds a field's (unchanged) value: `writeString32(buf, p.F)` -> `s` inside the helper
	if id, ok := e.(*ast.Ident); ok && r.write {
		if v, ok := fr.sc.get(id.Name); ok && v.k == "field" {
			if _, assigned := r.fields[v.f]; !assigned {
				return v.f, true
			}
		}
	}
	// *ptr where ptr points at a receiver field (table-driven codecs)
	if st, ok := e.(*ast.StarExpr); ok {
		if !r.pure(st.X) {
			return "", false
		}
		v := r.eval(fr, st.X)
		if len(v) == 1 && v[0].k == "ptr" {
			return v[0].f, true
		}
	}
	return "", false
}

// pure: an expression whose evaluation makes no codec call (identifiers, selections, calls of table accessors)
func (r *srun) pure(e ast.Expr) bool {
	ok := true
	ast.Inspect(e, func(n ast.Node) bool {
		if c, isCall := n.(*ast.CallExpr); isCall {
			if _, _, _, isCodec := codecCall(c); isCodec {
				ok = false
			}
			if sel, isSel := c.Fun.(*ast.SelectorExpr); isSel && (sel.Sel.Name == "Encode" || sel.Sel.Name == "Decode") {
				ok = false
			}
		}
		return true
	})
	return ok
}

// values that need more than a few words: rows of literal tables, closures, literal lists
type sobj struct {
	kind  string // struct closure list
	st    *ast.StructType
	elts  []ast.Expr
	fl    *ast.FuncLit
	frame *sframe // the frame the literal was written in (closures and lazily evaluated elements see its variables)
}

func (r *srun) newSobj(o sobj) sv {
	r.objs = append(r.objs, o)
	return sv{k: o.kind, ev: len(r.objs) - 1}
}

func (fr *sframe) snapshot() *sframe { return &sframe{recv: fr.recv, buf: fr.buf, sc: fr.sc, named: fr.named} }


func (r *srun) isBufExpr(fr *sframe, e ast.Expr) bool {
	id, ok := e.(*ast.Ident)
	return ok && id.Name == fr.buf
}

// evalCall evaluates a call and returns its results
func (r *srun) evalCall(fr *sframe, c *ast.CallExpr) []sv {
	if r.write {
		if vs, ok := r.frameCall(fr, c); ok {
			return vs
		}
	}
	// fmt.Errorf / errors.New: a fresh non-nil error
	if s := src(c.Fun); s == "fmt.Errorf" || s == "errors.New" {
		// its arguments are evaluated too: only literals, identifiers and selections are known not to do anything
		for _, a := range c.Args {
			ok := true
			ast.Inspect(a, func(n ast.Node) bool {
				switch n.(type) {
				case *ast.CallExpr, *ast.IndexExpr, *ast.SliceExpr, *ast.StarExpr, *ast.TypeAssertExpr:
					ok = false
				}
				return ok
			})
			if !ok {
				r.giveUp("error message computed by %s", src(a))
			}
		}
		return []sv{{k: "errnew"}}
	}
	// p.F.Decode(buf) / p.F.Encode(buf); the receiver may also be an expression that denotes a field's object
	// (a local copy of the pointer, the result of a helper that returns it)
	if sel, ok := c.Fun.(*ast.SelectorExpr); ok && len(c.Args) == 1 && r.isBufExpr(fr, c.Args[0]) && (sel.Sel.Name == "Decode" || sel.Sel.Name == "Encode") {
		f, ok := r.recvField(fr, sel.X)
		var at sv
		if ok {
			at = r.fieldVal(f)
		} else if _, isRecv := sel.X.(*ast.Ident); !isRecv || src(sel.X) != fr.recv {
			v := r.eval(fr, sel.X)
			if len(v) == 1 {
				switch v[0].k {
				case "field":
					f, at, ok = v[0].f, v[0], true
					if cur, assigned := r.fields[f]; assigned && cur != v[0] {
						ok = false // the field has been replaced since the pointer was taken
					}
				case "new", "lookupval":
					for g, cur := range r.fields {
						if cur == v[0] {
							f, at, ok = g, cur, true
						}
					}
				}
			}
			if !ok {
				r.giveUp("method call on %s", src(sel.X))
			}
		}
		if ok {
			if (sel.Sel.Name == "Encode") != r.write {
				r.giveUp("%s inside the other direction", sel.Sel.Name)
			}
			kind := "decode"
			if r.write {
				kind = "encode"
			}
			noErr := false
			if m := r.c.pi.methods[strings.TrimPrefix(r.c.ftype[f], "*")][sel.Sel.Name]; m != nil && m.Type.Results == nil {
				noErr = true
			}
			i := r.newEvent(sevent{kind: kind, call: c, node: c, field: f, at: at, noErr: noErr})
			if noErr {
				return nil
			}
			return []sv{{k: "err", ev: i}}
		}
	}
	// codec.X(buf, …)
	if name, _, args, ok := codecCall(c); ok {
		if len(args) >= 1 && r.isBufExpr(fr, args[0]) {
			if strings.HasPrefix(name, "Read") && !r.write {
				i := r.newEvent(sevent{kind: "read", call: c, node: c})
				return []sv{{k: "val", ev: i}, {k: "err", ev: i}}
			}
			if strings.HasPrefix(name, "Write") && r.write && len(args) >= 2 {
				f, ok := r.recvField(fr, args[1])
				if !ok {
					r.giveUp("written value is not a receiver field: %s", src(c))
				}
				at := r.fieldVal(f)
				if _, assigned := r.fields[f]; assigned && at.k != "cks" {
					r.giveUp("field %s written after being assigned", f)
				}
				i := r.newEvent(sevent{kind: "write", call: c, node: c, field: f, at: at})
				return []sv{{k: "err", ev: i}}
			}
		}
		r.giveUp("codec call: %s", src(c))
	}
	// binary.Write(buf, binary.<Order>, p.F)
	if src(c.Fun) == "binary.Write" && r.write && len(c.Args) == 3 && r.isBufExpr(fr, c.Args[0]) {
		if f, ok := r.recvField(fr, c.Args[2]); ok {
			i := r.newEvent(sevent{kind: "binwrite", call: c, node: c, field: f})
			return []sv{{k: "err", ev: i}}
		}
	}
	// buf.WriteByte(p.F) / buf.Write(binary.<Order>.AppendUintNN(nil, p.F)): a fixed-width integer stored directly
	if sel, ok := c.Fun.(*ast.SelectorExpr); ok && r.write && r.isBufExpr(fr, sel.X) && len(c.Args) == 1 {
		unconv := func(e ast.Expr, w int) (string, bool) { // p.F or T(p.F) with T an integer type of the same width
			if ce, ok := e.(*ast.CallExpr); ok && len(ce.Args) == 1 {
				if id, ok := ce.Fun.(*ast.Ident); ok && scalarWidth(id.Name) == w && !strings.HasPrefix(id.Name, "float") {
					e = ce.Args[0]
				}
			}
			f, ok := r.recvField(fr, e)
			if !ok || scalarWidth(r.c.ftype[f]) != w || strings.HasPrefix(r.c.ftype[f], "float") {
				return "", false
			}
			if cur, assigned := r.fields[f]; assigned && cur.k != "cks" {
				return "", false
			}
			return f, true
		}
		if sel.Sel.Name == "WriteByte" {
			if f, ok := unconv(c.Args[0], 1); ok {
				i := r.newEvent(sevent{kind: "rawwrite", call: c, node: c, field: f, at: r.fieldVal(f), raw: &Op{K: "scalar", W: 1, E: "", F: f}})
				return []sv{{k: "err", ev: i}}
			}
		}
		if sel.Sel.Name == "Write" {
			if mc, ok := c.Args[0].(*ast.CallExpr); ok && ident(mc.Fun) == "make" && len(mc.Args) == 2 && src(mc.Args[0]) == "[]byte" {
				if n, ok := intLit(mc.Args[1]); ok && n > 0 {
					i := r.newEvent(sevent{kind: "placeholder", call: c, node: c, raw: &Op{K: "scalar", W: n, E: ""}})
					return []sv{{k: "zero"}, {k: "err", ev: i}}
				}
			}
			if ac, ok := c.Args[0].(*ast.CallExpr); ok && len(ac.Args) == 2 && src(ac.Args[0]) == "nil" {
				for _, w := range []int{2, 4, 8} {
					for _, o := range [][2]string{{"BigEndian", "be"}, {"LittleEndian", "le"}} {
						if src(ac.Fun) == fmt.Sprintf("binary.%s.AppendUint%d", o[0], w*8) {
							if f, ok := unconv(ac.Args[1], w); ok {
								i := r.newEvent(sevent{kind: "rawwrite", call: c, node: c, field: f, at: r.fieldVal(f), raw: &Op{K: "scalar", W: w, E: o[1], F: f}})
								return []sv{{k: "zero"}, {k: "err", ev: i}}
							}
						}
					}
				}
			}
		}
	}
	// NewXByY(p.K): a table look-up
	if id, ok := c.Fun.(*ast.Ident); ok && len(c.Args) == 1 {
		if k, ok := r.recvField(fr, c.Args[0]); ok {
			if _, isTbl := r.c.tblID(r.c.pi.short, id.Name); isTbl {
				if v, assigned := r.fields[k]; assigned && r.write {
					r.giveUp("key assigned before look-up")
				} else if !r.write && (!assigned || v.k != "val") {
					r.giveUp("look-up with a key that was not decoded before")
				}
				i := r.newEvent(sevent{kind: "lookup", call: c, node: c, lookup: id.Name, key: k})
				return []sv{{k: "lookupval", ev: i}, {k: "err", ev: i}}
			}
		}
	}
	// NewT()
	if t, ok := newStruct(c); ok {
		if _, isTy := r.c.pi.structs[t]; isTy {
			return []sv{r.newObj(t)}
		}
	}
	// new(T)
	if id, ok := c.Fun.(*ast.Ident); ok && id.Name == "new" && len(c.Args) == 1 {
		if t, ok := c.Args[0].(*ast.Ident); ok {
			if _, isTy := r.c.pi.structs[t.Name]; isTy {
				return []sv{r.newObj(t.Name)}
			}
		}
	}
	// a closure held in a variable or in a row of a literal table
	{
		var fv []sv
		switch f := c.Fun.(type) {
		case *ast.Ident:
			if v, ok := fr.sc.get(f.Name); ok && v.k == "closure" {
				fv = []sv{v}
			}
		case *ast.SelectorExpr:
			if id, isID := f.X.(*ast.Ident); isID {
				if v, ok := fr.sc.get(id.Name); ok && v.k == "struct" {
					fv = r.eval(fr, f)
				}
			}
		}
		if len(fv) == 1 && fv[0].k == "closure" {
			o := r.objs[fv[0].ev]
			h := &ast.FuncDecl{Name: ast.NewIdent("closure"), Type: o.fl.Type, Body: o.fl.Body}
			return r.callFuncIn(fr, c, h, o.frame)
		}
	}
	// helper(args…) / p.helper(args…): a function of the package or a method of the same type, executed in place (the buffer
	// may be passed on, other arguments are passed by value)
	if id, ok := c.Fun.(*ast.Ident); ok {
		if _, local := fr.sc.get(id.Name); !local {
			if h := r.c.pi.funcs[id.Name]; h != nil && h.Body != nil && h.Type.Params != nil && len(c.Args) > 0 {
				return r.callFunc(fr, c, h, "")
			}
		}
	}
	if sel, ok := c.Fun.(*ast.SelectorExpr); ok {
		if id, ok := sel.X.(*ast.Ident); ok && id.Name == fr.recv && fr.recv != "" {
			if h := r.c.pi.methods[r.c.tyName][sel.Sel.Name]; h != nil && h.Body != nil && len(h.Recv.List[0].Names) == 1 {
				if _, ptr := h.Recv.List[0].Type.(*ast.StarExpr); !ptr {
					r.giveUp("helper with a value receiver")
				}
				return r.callFunc(fr, c, h, h.Recv.List[0].Names[0].Name)
			}
		}
	}
	r.giveUp("call: %s", src(c))
	return nil
}

// callFunc executes the body of a helper with its parameters bound to the arguments' symbolic values
func (r *srun) callFunc(fr *sframe, c *ast.CallExpr, h *ast.FuncDecl, recv string) []sv {
	return r.callFuncIn(fr, c, h, &sframe{recv: recv})
}

// callFuncIn: as callFunc, inside the frame `outer` (a closure sees the variables, receiver and buffer of the frame that
// made it; a parameter bound to the caller's receiver or buffer becomes the callee's name for it)
func (r *srun) callFuncIn(fr *sframe, c *ast.CallExpr, h *ast.FuncDecl, outer *sframe) []sv {
	if r.depth >= 4 {
		r.giveUp("helper nesting")
	}
	nf := &sframe{recv: outer.recv, buf: outer.buf, sc: &scope{vars: map[string]sv{}, parent: outer.sc}}
	var pnames []string
	if h.Type.Params != nil {
		for _, p := range h.Type.Params.List {
			if len(p.Names) == 0 {
				r.giveUp("helper with unnamed parameters")
			}
			for _, n := range p.Names {
				pnames = append(pnames, n.Name)
			}
		}
	}
	if len(pnames) != len(c.Args) {
		r.giveUp("helper call: %s", src(c))
	}
	for i, a := range c.Args {
		if r.isBufExpr(fr, a) {
			nf.buf = pnames[i]
			continue
		}
		if id, ok := a.(*ast.Ident); ok && id.Name == fr.recv && fr.recv != "" {
			nf.recv = pnames[i] // the receiver passed on (accessor tables: func(p *T) *string { return &p.F })
			continue
		}
		v := r.eval(fr, a)
		if len(v) != 1 {
			r.giveUp("helper argument: %s", src(c))
		}
		nf.sc.vars[pnames[i]] = v[0]
	}
	nres := 0
	var rnames []string
	if h.Type.Results != nil {
		for _, p := range h.Type.Results.List {
			for _, n := range p.Names {
				rnames = append(rnames, n.Name)
				nf.sc.vars[n.Name] = sv{k: "zero"}
			}
			nres += max(1, len(p.Names))
		}
	}
	if len(rnames) != 0 && len(rnames) != nres {
		r.giveUp("helper results")
	}
	r.depth++
	nf.sc = &scope{vars: map[string]sv{}, parent: nf.sc}
	ret, vals := r.exec(nf, h.Body.List)
	r.depth--
	if (!ret || (len(vals) == 0 && nres != 0)) && len(rnames) == nres && nres != 0 {
		vals = nil
		for _, n := range rnames {
			v, _ := nf.sc.get(n)
			vals = append(vals, v)
		}
		ret = true
	}
	if !ret && nres != 0 {
		r.giveUp("helper falls off its end")
	}
	if len(vals) != nres {
		r.giveUp("helper result count")
	}
	return vals
}

// storeByte records `w[i] = byte(span >> shift)`; when every byte of the window has been stored, the stores are one patch
// of the window in big- or little-endian order (anything else - a transposed byte, two values mixed - is not followed)
func (r *srun) storeByte(w sv, i int, b sv) {
	if r.stores == nil {
		r.stores, r.storeVal = map[int]map[int]int{}, map[int]sv{}
	}
	span := sv{k: "span", ev: b.ev, ev2: b.ev2, f: b.f}
	if old, ok := r.storeVal[w.ev]; ok && old != span {
		r.giveUp("bytes of two different values stored into one window")
	}
	r.storeVal[w.ev] = span
	if r.stores[w.ev] == nil {
		r.stores[w.ev] = map[int]int{}
	}
	if _, dup := r.stores[w.ev][i]; dup {
		r.giveUp("byte %d of the window stored twice", i)
	}
	r.stores[w.ev][i] = b.off
	if len(r.stores[w.ev]) < w.ev2 {
		return
	}
	be, le := true, true
	for k := 0; k < w.ev2; k++ {
		if r.stores[w.ev][k] != 8*(w.ev2-1-k) {
			be = false
		}
		if r.stores[w.ev][k] != 8*k {
			le = false
		}
	}
	order := ""
	switch {
	case be:
		order = "be"
	case le:
		order = "le"
	default:
		r.giveUp("hand-written byte stores are neither big- nor little-endian")
	}
	r.newEvent(sevent{kind: "patch", at: span, raw: &Op{K: "scalar", W: w.ev2, E: order}, key: fmt.Sprint(w.ev), node: ast.NewIdent("byte stores")})
	delete(r.stores, w.ev)
}

// normalised position: a constant offset that equals the width of the fixed-width call made at that position moves the
// mark past that call (`bodyStart := lenPos + 4`)
func (r *srun) normMark(m sv) sv {
	for m.off > 0 && m.ev < len(r.events) {
		w := r.eventWidth(r.events[m.ev])
		if w <= 0 || w > m.off {
			break
		}
		m.ev, m.off = m.ev+1, m.off-w
	}
	return m
}

// width of a call that always emits the same number of bytes (0 when it does not)
func (r *srun) eventWidth(e sevent) int {
	switch e.kind {
	case "placeholder":
		return e.raw.W
	case "rawwrite":
		return e.raw.W
	case "binwrite":
		return scalarWidth(r.c.ftype[e.field])
	case "write":
		name, targs, args, _ := codecCall(e.call)
		if strings.Contains(name, "ObjectList") {
			return 0
		}
		if op, ok := r.c.primOp(true, name, targs, args[2:], r.c.ftype[e.field]); ok {
			if op.K == "scalar" {
				return op.W
			}
			if op.K == "fixed" {
				return op.N
			}
		}
	}
	return 0
}

// buf.Bytes()[LOW:HIGH] -> the marks (HIGH may be absent)
func (r *srun) bytesSlice(fr *sframe, e ast.Expr) (lo sv, hi *sv, ok bool) {
	sl, isSl := e.(*ast.SliceExpr)
	if !isSl || sl.Slice3 || sl.Low == nil {
		return
	}
	bc, isCall := sl.X.(*ast.CallExpr)
	if !isCall || len(bc.Args) != 0 {
		return
	}
	bs, isSel := bc.Fun.(*ast.SelectorExpr)
	if !isSel || bs.Sel.Name != "Bytes" || !r.isBufExpr(fr, bs.X) {
		return
	}
	l := r.eval(fr, sl.Low)
	if len(l) != 1 || l[0].k != "mark" {
		return
	}
	lo = l[0]
	if sl.High != nil {
		h := r.eval(fr, sl.High)
		if len(h) != 1 || h[0].k != "mark" {
			return
		}
		hv := h[0]
		hi = &hv
	}
	return lo, hi, true
}

// the calls only a self-measuring frame makes
func (r *srun) frameCall(fr *sframe, c *ast.CallExpr) ([]sv, bool) {
	sel, isSel := c.Fun.(*ast.SelectorExpr)
	// buf.Len()
	if isSel && sel.Sel.Name == "Len" && r.isBufExpr(fr, sel.X) && len(c.Args) == 0 {
		return []sv{{k: "mark", ev: len(r.events)}}, true
	}
	// byte(X >> s) / byte(X) / uint8(…): one byte of a span (for explicit byte stores)
	if id, ok := c.Fun.(*ast.Ident); ok && len(c.Args) == 1 && (id.Name == "byte" || id.Name == "uint8") {
		arg := c.Args[0]
		shift := 0
		if b, ok := arg.(*ast.BinaryExpr); ok && b.Op == token.SHR {
			n, ok := intLit(b.Y)
			if !ok || n%8 != 0 || n < 0 || n > 56 {
				r.giveUp("shift %s", src(c))
			}
			shift, arg = n, b.X
		}
		if pe, ok := arg.(*ast.ParenExpr); ok {
			arg = pe.X
		}
		if r.pure(arg) {
			if id, isID := arg.(*ast.Ident); !isID || func() bool { _, ok := fr.sc.get(id.Name); return ok }() {
				if _, isLit := arg.(*ast.BasicLit); !isLit {
					v := r.eval(fr, arg)
					if len(v) == 1 && v[0].k == "span" {
						return []sv{{k: "bytesel", ev: v[0].ev, ev2: v[0].ev2, off: shift, f: v[0].f}}, true
					}
				}
			}
		}
	}
	// uint32(X): conversion of a span or of the constant 0
	if id, ok := c.Fun.(*ast.Ident); ok && len(c.Args) == 1 && scalarWidth(id.Name) > 0 && !strings.HasPrefix(id.Name, "float") {
		if _, shadow := fr.sc.get(id.Name); !shadow {
			v := r.eval(fr, c.Args[0])
			if len(v) == 1 && (v[0].k == "span" || v[0].k == "const") {
				if v[0].k == "span" && scalarWidth(id.Name) != 4 {
					r.giveUp("length converted to %s", id.Name)
				}
				x := v[0]
				x.f = id.Name
				return []sv{x}, true
			}
			r.giveUp("conversion %s", src(c))
		}
	}
	// codec.WriteBasicType[LE](buf, uint32(0)): the length placeholder
	if name, targs, args, ok := codecCall(c); ok && len(args) == 2 && r.isBufExpr(fr, args[0]) && strings.HasPrefix(name, "WriteBasicType") && !strings.Contains(name, "List") {
		if _, isField := r.recvField(fr, args[1]); !isField {
			v := r.eval(fr, args[1])
			if len(v) == 1 && v[0].k == "const" && v[0].off == 0 && v[0].f != "" {
				op, ok := r.c.primOp(true, name, targs, nil, v[0].f)
				if !ok || op.K != "scalar" {
					r.giveUp("placeholder %s", src(c))
				}
				i := r.newEvent(sevent{kind: "placeholder", call: c, node: c, raw: &op})
				return []sv{{k: "err", ev: i}}, true
			}
			r.giveUp("written value %s", src(c))
		}
	}
	// codec.Get("ALG")
	if name, _, args, ok := codecCall(c); ok && name == "Get" && len(args) == 1 {
		if alg, ok := strLit(args[0]); ok {
			absent := r.isNilField("svc:" + alg)
			if absent {
				return []sv{{k: "nil"}, {k: "bool", b: false}}, true
			}
			return []sv{{k: "svc", f: alg}, {k: "bool", b: true}}, true
		}
		r.giveUp("codec.Get of a computed name")
	}
	// binary.<Order>.PutUint32(buf.Bytes()[POS:POS+4], X)
	if isSel && strings.HasPrefix(sel.Sel.Name, "PutUint") && len(c.Args) == 2 {
		order := map[string]string{"binary.BigEndian": "be", "binary.LittleEndian": "le"}[src(sel.X)]
		w := map[string]int{"PutUint16": 2, "PutUint32": 4, "PutUint64": 8}[sel.Sel.Name]
		lo, hi, ok := r.bytesSlice(fr, c.Args[0])
		if order == "" || w == 0 || !ok || hi == nil {
			r.giveUp("patch %s", src(c))
		}
		lo = r.normMark(lo)
		if lo.off != 0 {
			r.giveUp("patch position %s", src(c))
		}
		// the window is exactly the w bytes at lo: written as lo+w, or as the mark taken after a w-byte call made at lo
		if h := r.normMark(sv{k: "mark", ev: hi.ev, off: hi.off}); !(h.ev == lo.ev && h.off == w) &&
			!(h.ev == lo.ev+1 && h.off == 0 && lo.ev < len(r.events) && r.eventWidth(r.events[lo.ev]) == w) {
			r.giveUp("patch window %s", src(c))
		}
		v := r.eval(fr, c.Args[1])
		if len(v) != 1 || v[0].k != "span" {
			r.giveUp("patched value %s", src(c))
		}
		i := r.newEvent(sevent{kind: "patch", call: c, node: c, at: v[0], raw: &Op{K: "scalar", W: w, E: order}, key: fmt.Sprint(lo.ev)})
		_ = i
		return nil, true
	}
	// SVC.(codec.ChecksumService[*bytes.Buffer, T]).Calc(bytes.NewBuffer(buf.Bytes()[START:]))
	if isSel && sel.Sel.Name == "Calc" && len(c.Args) == 1 {
		_, isTA := sel.X.(*ast.TypeAssertExpr)
		_, isID := sel.X.(*ast.Ident)
		if isTA || isID {
			v := r.eval(fr, sel.X)
			nb, isNB := c.Args[0].(*ast.CallExpr)
			if len(v) == 1 && v[0].k == "svc" && v[0].t != "" && isNB && src(nb.Fun) == "bytes.NewBuffer" && len(nb.Args) == 1 {
				lo, hi, ok := r.bytesSlice(fr, nb.Args[0])
				lo = r.normMark(lo)
				ts := v[0].t
				if ok && hi == nil && strings.HasPrefix(ts, "codec.ChecksumService[*bytes.Buffer, ") {
					rt := strings.TrimSuffix(strings.TrimPrefix(ts, "codec.ChecksumService[*bytes.Buffer, "), "]")
					i := r.newEvent(sevent{kind: "calc", call: c, node: c, lookup: v[0].f, key: rt, at: lo})
					return []sv{{k: "cks", ev: i, f: rt}}, true
				}
			}
			if len(v) == 1 && v[0].k == "svc" {
				r.giveUp("checksum computation %s", src(c))
			}
		}
	}
	return nil, false
}

func (r *srun) eval(fr *sframe, e ast.Expr) []sv {
	switch x := e.(type) {
	case *ast.ParenExpr:
		return r.eval(fr, x.X)
	case *ast.BasicLit:
		if n, ok := intLit(x); ok {
			return []sv{{k: "const", off: n}}
		}
	case *ast.BinaryExpr:
		if r.write && (x.Op == token.SUB || x.Op == token.ADD) {
			a, b := r.eval(fr, x.X), r.eval(fr, x.Y)
			if len(a) == 1 && len(b) == 1 {
				switch {
				case x.Op == token.SUB && a[0].k == "mark" && b[0].k == "mark":
					ma, mb := r.normMark(a[0]), r.normMark(b[0])
					if ma.off == 0 && mb.off == 0 {
						return []sv{{k: "span", ev: ma.ev, ev2: mb.ev}}
					}
				case x.Op == token.ADD && a[0].k == "mark" && b[0].k == "const":
					return []sv{{k: "mark", ev: a[0].ev, off: a[0].off + b[0].off}}
				}
			}
		}
	case *ast.Ident:
		if x.Name == "nil" {
			return []sv{{k: "nil"}}
		}
		if x.Name == "true" || x.Name == "false" {
			return []sv{{k: "bool", b: x.Name == "true"}}
		}
		if v, ok := fr.sc.get(x.Name); ok {
			return []sv{v}
		}
		if n, ok := intLit(x); ok {
			return []sv{{k: "const", off: n}}
		}
		if init, ok := r.c.pi.vars[x.Name]; ok {
			// a package-level table: its initialiser, evaluated outside any method
			return r.eval(&sframe{sc: &scope{vars: map[string]sv{}}}, init)
		}
		r.giveUp("identifier %s", x.Name)
	case *ast.SelectorExpr:
		if f, ok := r.recvField(fr, x); ok {
			return []sv{r.fieldVal(f)}
		}
		if id, isID := x.X.(*ast.Ident); isID {
			if v, ok := fr.sc.get(id.Name); ok && v.k == "struct" {
				o := r.objs[v.ev]
				idx, i := -1, 0
				for _, f := range o.st.Fields.List {
					for _, n := range f.Names {
						if n.Name == x.Sel.Name {
							idx = i
						}
						i++
					}
				}
				for j, el := range o.elts {
					if kv, isKV := el.(*ast.KeyValueExpr); isKV {
						if ident(kv.Key) == x.Sel.Name {
							return r.eval(o.frame, kv.Value)
						}
					} else if j == idx {
						return r.eval(o.frame, el)
					}
				}
			}
		}
		r.giveUp("selector %s", src(x))
	case *ast.CallExpr:
		return r.evalCall(fr, x)
	case *ast.SliceExpr:
		if r.write {
			if lo, hi, ok := r.bytesSlice(fr, x); ok && hi != nil {
				lo = r.normMark(lo)
				h := r.normMark(sv{k: "mark", ev: hi.ev, off: hi.off})
				w := -1
				if h.ev == lo.ev && lo.off == 0 {
					w = h.off
				} else if h.ev == lo.ev+1 && h.off == 0 && lo.off == 0 && lo.ev < len(r.events) {
					w = r.eventWidth(r.events[lo.ev])
				}
				if w > 0 {
					return []sv{{k: "win", ev: lo.ev, ev2: w}}
				}
			}
		}
		r.giveUp("slice %s", src(x))
	case *ast.IndexExpr:
		// `_ = w[3]` (a bounds-check hint): reading a byte of a window has no effect
		if id, ok := x.X.(*ast.Ident); ok {
			if v, ok := fr.sc.get(id.Name); ok && v.k == "win" {
				if n, ok := intLit(x.Index); ok && n >= 0 && n < v.ev2 {
					return []sv{{k: "zero"}}
				}
			}
		}
		r.giveUp("index %s", src(x))
	case *ast.StarExpr:
		if f, ok := r.recvField(fr, x); ok {
			return []sv{r.fieldVal(f)}
		}
		r.giveUp("dereference %s", src(x))
	case *ast.FuncLit:
		return []sv{r.newSobj(sobj{kind: "closure", fl: x, frame: fr.snapshot()})}
	case *ast.CompositeLit:
		switch t := x.Type.(type) {
		case *ast.ArrayType:
			var elts []ast.Expr
			for _, el := range x.Elts {
				if _, isKV := el.(*ast.KeyValueExpr); isKV {
					r.giveUp("keyed list literal")
				}
				if inner, ok := el.(*ast.CompositeLit); ok && inner.Type == nil {
					el = &ast.CompositeLit{Type: t.Elt, Elts: inner.Elts, Lbrace: inner.Lbrace, Rbrace: inner.Rbrace}
				}
				elts = append(elts, el)
			}
			return []sv{r.newSobj(sobj{kind: "list", elts: elts, frame: fr.snapshot()})}
		case *ast.StructType:
			return []sv{r.newSobj(sobj{kind: "struct", st: t, elts: x.Elts, frame: fr.snapshot()})}
		}
		r.giveUp("literal %s", src(x))
	case *ast.TypeAssertExpr:
		if x.Type != nil {
			v := r.eval(fr, x.X)
			if len(v) == 1 && v[0].k == "svc" && v[0].t == "" {
				y := v[0]
				y.t = src(x.Type)
				return []sv{y}
			}
		}
		r.giveUp("type assertion %s", src(x))
	case *ast.UnaryExpr:
		if t, ok := newStruct(x); ok {
			if _, isTy := r.c.pi.structs[t]; isTy {
				return []sv{r.newObj(t)}
			}
		}
		if x.Op == token.AND {
			if f, ok := recvField(x.X, fr.recv); ok && fr.recv != "" {
				return []sv{{k: "ptr", f: f}}
			}
		}
		if x.Op == token.SUB || x.Op == token.ADD {
			if v := r.eval(fr, x.X); len(v) == 1 && v[0].k == "const" {
				if x.Op == token.SUB {
					v[0].off = -v[0].off
				}
				return v
			}
		}
		r.giveUp("expression %s", src(x))
	}
	r.giveUp("expression %s", src(e))
	return nil
}

func (r *srun) cond(fr *sframe, e ast.Expr) bool {
	switch x := e.(type) {
	case *ast.Ident:
		if v, ok := fr.sc.get(x.Name); ok && v.k == "bool" {
			return v.b
		}
		if x.Name == "true" || x.Name == "false" {
			return x.Name == "true"
		}
	case *ast.ParenExpr:
		return r.cond(fr, x.X)
	case *ast.UnaryExpr:
		if x.Op == token.NOT {
			return !r.cond(fr, x.X)
		}
	case *ast.BinaryExpr:
		if x.Op == token.EQL || x.Op == token.NEQ {
			var other ast.Expr
			if id, ok := x.Y.(*ast.Ident); ok && id.Name == "nil" {
				other = x.X
			} else if id, ok := x.X.(*ast.Ident); ok && id.Name == "nil" {
				other = x.Y
			}
			if other != nil {
				vs := r.eval(fr, other)
				if len(vs) == 1 {
					switch r.nilness(vs[0]) {
					case 1:
						return x.Op == token.EQL
					case 0:
						return x.Op == token.NEQ
					}
				}
			}
		}
		if x.Op == token.LAND {
			return r.cond(fr, x.X) && r.cond(fr, x.Y)
		}
		if x.Op == token.LOR {
			return r.cond(fr, x.X) || r.cond(fr, x.Y)
		}
	}
	r.giveUp("condition %s", src(e))
	return false
}

func (r *srun) assign(fr *sframe, lhs ast.Expr, v sv, define bool) {
	switch x := lhs.(type) {
	case *ast.Ident:
		if x.Name == "_" {
			return
		}
		if !fr.sc.set(x.Name, v, define) {
			r.giveUp("assignment to undeclared %s", x.Name)
		}
		return
	case *ast.SelectorExpr:
		if f, ok := r.recvField(fr, x); ok && !define {
			r.fields[f] = v
			r.assigns = append(r.assigns, f)
			return
		}
	case *ast.StarExpr:
		if f, ok := r.recvField(fr, x); ok && !define {
			r.fields[f] = v
			r.assigns = append(r.assigns, f)
			return
		}
	case *ast.IndexExpr:
		// one byte of a length placeholder written by hand: collected until the window is complete
		if id, ok := x.X.(*ast.Ident); ok && !define && v.k == "bytesel" {
			if w, ok := fr.sc.get(id.Name); ok && w.k == "win" {
				if i, ok := intLit(x.Index); ok && i >= 0 && i < w.ev2 {
					r.storeByte(w, i, v)
					return
				}
			}
		}
	}
	r.giveUp("assignment target %s", src(lhs))
}

// exec runs statements; returned=true when a return statement was executed
func (r *srun) exec(fr *sframe, stmts []ast.Stmt) (returned bool, vals []sv) {
	for _, s := range stmts {
		switch x := s.(type) {
		case *ast.EmptyStmt:
		case *ast.BlockStmt:
			fr.push()
			ret, v := r.exec(fr, x.List)
			fr.pop()
			if ret {
				return true, v
			}
		case *ast.DeclStmt:
			gd, ok := x.Decl.(*ast.GenDecl)
			if !ok || gd.Tok != token.VAR {
				r.giveUp("declaration %s", src(x))
			}
			for _, sp := range gd.Specs {
				vs := sp.(*ast.ValueSpec)
				if len(vs.Values) != 0 {
					r.giveUp("declaration with value %s", src(x))
				}
				for _, n := range vs.Names {
					fr.sc.vars[n.Name] = sv{k: "zero"}
				}
			}
		case *ast.ExprStmt:
			c, ok := x.X.(*ast.CallExpr)
			if !ok {
				r.giveUp("statement %s", src(x))
			}
			r.evalCall(fr, c)
		case *ast.AssignStmt:
			if x.Tok != token.DEFINE && x.Tok != token.ASSIGN {
				r.giveUp("assignment %s", src(x))
			}
			var vals []sv
			if len(x.Rhs) == 1 {
				vals = r.eval(fr, x.Rhs[0])
			} else {
				for _, e := range x.Rhs {
					v := r.eval(fr, e)
					if len(v) != 1 {
						r.giveUp("assignment %s", src(x))
					}
					vals = append(vals, v[0])
				}
			}
			if len(vals) != len(x.Lhs) {
				r.giveUp("assignment arity %s", src(x))
			}
			for i, l := range x.Lhs {
				r.assign(fr, l, vals[i], x.Tok == token.DEFINE)
			}
		case *ast.IfStmt:
			fr.push() // the init statement's names are scoped to the if
			if x.Init != nil {
				if ret, v := r.exec(fr, []ast.Stmt{x.Init}); ret {
					fr.pop()
					return true, v
				}
			}
			var ret bool
			var v []sv
			if r.cond(fr, x.Cond) {
				fr.push()
				ret, v = r.exec(fr, x.Body.List)
				fr.pop()
			} else if x.Else != nil {
				ret, v = r.exec(fr, []ast.Stmt{x.Else})
			}
			fr.pop()
			if ret {
				return true, v
			}
		case *ast.RangeStmt:
			// a loop over a literal table is its body once per row
			if x.Tok != token.DEFINE || x.Value == nil || ident(x.Value) == "" {
				r.giveUp("loop %s", src(x))
			}
			lv := r.eval(fr, x.X)
			if len(lv) != 1 || lv[0].k != "list" {
				r.giveUp("loop over %s", src(x.X))
			}
			o := r.objs[lv[0].ev]
			if len(o.elts) > 64 {
				r.giveUp("long table")
			}
			for i, el := range o.elts {
				ev := r.eval(o.frame, el)
				if len(ev) != 1 {
					r.giveUp("table row %s", src(el))
				}
				fr.push()
				fr.sc.vars[ident(x.Value)] = ev[0]
				if k := ident(x.Key); k != "" && k != "_" {
					fr.sc.vars[k] = sv{k: "const", off: i}
				}
				ret, v := r.exec(fr, x.Body.List)
				fr.pop()
				if ret {
					return true, v
				}
			}
		case *ast.SwitchStmt:
			// tagless switch = if-chain; `switch X { case nil: … default: … }` tests X against nil
			fr.push()
			if x.Init != nil {
				if ret, v := r.exec(fr, []ast.Stmt{x.Init}); ret {
					fr.pop()
					return true, v
				}
			}
			var chosen *ast.CaseClause
			var deflt *ast.CaseClause
			for _, cs := range x.Body.List {
				cc := cs.(*ast.CaseClause)
				if cc.List == nil {
					deflt = cc
					continue
				}
				if chosen != nil {
					continue
				}
				for _, e := range cc.List {
					hit := false
					if x.Tag == nil {
						hit = r.cond(fr, e)
					} else {
						hit = r.cond(fr, &ast.BinaryExpr{X: x.Tag, Op: token.EQL, Y: e})
					}
					if hit {
						chosen = cc
						break
					}
				}
			}
			if chosen == nil {
				chosen = deflt
			}
			var ret bool
			var v []sv
			if chosen != nil {
				for _, st := range chosen.Body {
					if _, isFall := st.(*ast.BranchStmt); isFall {
						r.giveUp("branch statement in switch")
					}
				}
				fr.push()
				ret, v = r.exec(fr, chosen.Body)
				fr.pop()
			}
			fr.pop()
			if ret {
				return true, v
			}
		case *ast.ReturnStmt:
			if len(x.Results) == 0 {
				if fr.named != "" {
					v, _ := fr.sc.get(fr.named)
					return true, []sv{v}
				}
				return true, nil
			}
			var vals []sv
			if len(x.Results) == 1 {
				vals = r.eval(fr, x.Results[0])
			} else {
				for _, e := range x.Results {
					v := r.eval(fr, e)
					if len(v) != 1 {
						r.giveUp("return %s", src(x))
					}
					vals = append(vals, v[0])
				}
			}
			return true, vals
		default:
			r.giveUp("statement %s", src(s))
		}
	}
	return false, nil
}

// one run of the method body
func (c *ctx) symRun(fd *ast.FuncDecl, write bool, dec []bool, failAt int) (r *srun, ret sv, why string) {
	r = &srun{c: c, write: write, fields: map[string]sv{}, dec: dec, askMemo: map[string]bool{}, failAt: failAt}
	defer func() {
		if x := recover(); x != nil {
			if g, ok := x.(symGiveUp); ok {
				why = g.why
				return
			}
			panic(x)
		}
	}()
	fr := &sframe{sc: &scope{vars: map[string]sv{}}}
	if len(fd.Recv.List[0].Names) == 1 {
		fr.recv = fd.Recv.List[0].Names[0].Name
	}
	fr.buf = bufParam(fd)
	if fr.buf == "" || fr.recv == "" {
		return r, sv{}, "signature"
	}
	if fd.Type.Results == nil {
		// a method without an error result (hand-written): it can only be made of calls that cannot fail
		_, vals := r.exec(fr, fd.Body.List)
		if len(vals) != 0 {
			return r, sv{}, "return arity"
		}
		for _, e := range r.events {
			if fallible(c, e, write) {
				return r, sv{}, "a call that can fail inside a method without an error result: " + src(e.node)
			}
		}
		return r, sv{k: "nil"}, ""
	}
	if len(fd.Type.Results.List) != 1 || typeStr(fd.Type.Results.List[0].Type) != "error" {
		return r, sv{}, "result type"
	}
	if n := fd.Type.Results.List[0].Names; len(n) == 1 {
		fr.named = n[0].Name
		fr.sc.vars[fr.named] = sv{k: "nil"}
	} else if len(n) > 1 {
		return r, sv{}, "results"
	}
	returned, vals := r.exec(fr, fd.Body.List)
	if len(r.stores) != 0 {
		return r, sv{}, "a window of the buffer is only partly overwritten"
	}
	if !returned {
		return r, sv{}, "falls off the end"
	}
	if len(vals) != 1 {
		return r, sv{}, "return arity"
	}
	return r, vals[0], ""
}

func fallible(c *ctx, e sevent, write bool) bool {
	if e.noErr {
		return false
	}
	switch e.kind {
	case "read", "lookup", "decode", "encode":
		return true
	case "binwrite", "rawwrite", "placeholder", "patch", "calc":
		return false
	case "write":
		name, targs, args, _ := codecCall(e.call)
		if strings.Contains(name, "ObjectList") {
			return true
		}
		op, ok := c.primOp(true, name, targs, args[2:], c.ftype[e.field])
		if !ok {
			return true
		}
		return op.K != "scalar" && op.K != "fixed"
	}
	return true
}

func sameEvent(a, b sevent) bool {
	return a.kind == b.kind && a.call == b.call && a.field == b.field && a.lookup == b.lookup && a.key == b.key
}

type spath struct {
	dec []bool
	r   *srun
}

// symPaths runs every success and failure path of a method and classifies how absent pointer fields are handled
func (c *ctx) symPaths(fd *ast.FuncDecl, write bool) (paths []spath, ref *srun, guard map[string]string, why string) {
	// enumerate the answers to the nil questions (depth first; a question may depend on earlier answers)
	var explore func(dec []bool) string
	explore = func(dec []bool) string {
		if len(dec) > 5 || len(paths) > 40 {
			return "too many absent-field cases"
		}
		r, ret, why := c.symRun(fd, write, dec, -1)
		if why != "" {
			return why
		}
		if r.nilness(ret) != 1 {
			return "success path does not return nil"
		}
		if len(r.asked) > len(dec) {
			// the first undecided question was answered "non-nil"; explore both answers explicitly
			for _, a := range []bool{false, true} {
				if w := explore(append(append([]bool{}, dec...), a)); w != "" {
					return w
				}
			}
			return ""
		}
		paths = append(paths, spath{append([]bool{}, dec...), r})
		return ""
	}
	if w := explore(nil); w != "" {
		return nil, nil, nil, w
	}
	// failure paths
	for _, p := range paths {
		for i, e := range p.r.events {
			if !fallible(c, e, write) {
				continue
			}
			fr, ret, why := c.symRun(fd, write, p.dec, i)
			if why != "" {
				return nil, nil, nil, "when " + src(e.node) + " fails: " + why
			}
			if len(fr.events) != i+1 {
				return nil, nil, nil, "when " + src(e.node) + " fails: different calls"
			}
			if fr.nilness(ret) != 0 {
				return nil, nil, nil, "when " + src(e.node) + " fails: the error is not returned"
			}
		}
	}
	// the reference path: every pointer field present
	for _, p := range paths {
		all := true
		for _, a := range p.dec {
			if a {
				all = false
			}
		}
		if all {
			ref = p.r
		}
	}
	if ref == nil {
		return nil, nil, nil, "no reference path"
	}
	// guard classification of every field whose method is called, from the paths on which it is absent
	guard = map[string]string{}
	for _, e := range ref.events {
		if e.kind != "decode" && e.kind != "encode" {
			continue
		}
		ft := c.ftype[e.field]
		if !isPtrLike(ft) {
			guard[e.field] = "val"
		} else {
			guard[e.field] = "none"
		}
	}
	for _, p := range paths {
		nilF := map[string]bool{}
		for i, f := range p.r.asked {
			if i < len(p.dec) && p.dec[i] {
				nilF[f] = true
			}
		}
		if len(nilF) == 0 {
			continue
		}
		// align this path's events with the reference path
		j := 0
		seen := map[string]bool{}
		for _, e := range p.r.events {
			if e.kind == "lookup" && write {
				// a look-up made only to materialise an absent union
				if j < len(ref.events) && sameEvent(ref.events[j], e) {
					j++
				}
				continue
			}
			for j < len(ref.events) && !sameEvent(ref.events[j], e) {
				// reference events missing here must be calls on absent fields (skipped)
				m := ref.events[j]
				if (m.kind == "encode" || m.kind == "decode") && nilF[m.field] {
					if g, ok := guard[m.field]; ok && g != "none" && g != "skip" {
						return nil, nil, nil, "inconsistent handling of absent " + m.field
					}
					guard[m.field] = "skip"
					seen[m.field] = true
					j++
					continue
				}
				if m.kind == "calc" && nilF["svc:"+m.lookup] {
					j++
					continue
				}
				return nil, nil, nil, "paths differ at " + src(e.node)
			}
			if j >= len(ref.events) {
				return nil, nil, nil, "paths differ at " + src(e.node)
			}
			if (e.kind == "encode" || e.kind == "decode") && nilF[e.field] {
				seen[e.field] = true
				switch e.at.k {
				case "new":
					if "*"+e.at.f != c.ftype[e.field] {
						return nil, nil, nil, "materialised type of " + e.field
					}
					if g := guard[e.field]; g != "none" && g != "mat" {
						return nil, nil, nil, "inconsistent handling of absent " + e.field
					}
					guard[e.field] = "mat"
				case "lookupval":
					if g := guard[e.field]; g != "none" && g != "mat" {
						return nil, nil, nil, "inconsistent handling of absent " + e.field
					}
					guard[e.field] = "mat"
				case "field":
					// dereferenced although absent: stays "none"
					if g := guard[e.field]; g != "none" {
						return nil, nil, nil, "inconsistent handling of absent " + e.field
					}
				default:
					return nil, nil, nil, "absent " + e.field + " holds " + e.at.k
				}
			}
			j++
		}
		for ; j < len(ref.events); j++ {
			m := ref.events[j]
			if (m.kind == "encode" || m.kind == "decode") && nilF[m.field] {
				if g, ok := guard[m.field]; ok && g != "none" && g != "skip" {
					return nil, nil, nil, "inconsistent handling of absent " + m.field
				}
				guard[m.field] = "skip"
				continue
			}
			if m.kind == "calc" && nilF["svc:"+m.lookup] {
				continue
			}
			return nil, nil, nil, "paths differ at the end"
		}
	}
	return paths, ref, guard, ""
}

// symOps: the op list of an Encode (write=true) or Decode method, or a reason why the executor gave up
func (c *ctx) symOps(fd *ast.FuncDecl, write bool) (ops []Op, why string) {
	paths, ref, guard, why := c.symPaths(fd, write)
	if why != "" {
		return nil, why
	}
	// build the ops from the reference path
	valField := map[int]string{}
	for f, v := range ref.fields {
		if v.k == "val" || v.k == "lookupval" {
			if _, dup := valField[v.ev]; dup {
				return nil, "one value stored into two fields"
			}
			valField[v.ev] = f
		} else if v.k != "new" && v.k != "field" {
			return nil, "field " + f + " assigned " + v.k
		} else if v.k == "field" && v.f != f {
			return nil, "field " + f + " assigned from " + v.f
		}
	}
	cnt := map[string]int{}
	for _, f := range ref.assigns {
		cnt[f]++
		if cnt[f] > 1 {
			return nil, "field " + f + " assigned twice"
		}
	}
	evs := ref.events
	for i := 0; i < len(evs); i++ {
		e := evs[i]
		switch e.kind {
		case "read":
			f, ok := valField[i]
			if !ok {
				return nil, "value read and not stored: " + src(e.node)
			}
			ops = append(ops, c.readCallOp(e.node, e.call, f))
		case "lookup":
			// Decode: look-up, store, Decode of the stored value, with nothing in between
			if write {
				return nil, "look-up on the path with every field present"
			}
			f, ok := valField[i]
			if !ok || i+1 >= len(evs) || evs[i+1].kind != "decode" || evs[i+1].field != f || evs[i+1].at.k != "lookupval" || evs[i+1].at.ev != i {
				return nil, "look-up result not decoded next: " + src(e.node)
			}
			ops = append(ops, c.unionOp(e.node, f, e.lookup, e.key, "mat"))
			i++
		case "decode", "encode":
			ft := c.ftype[e.field]
			if ft == "codec.BinaryCodec" {
				if write && guard[e.field] == "mat" {
					// the materialising look-up is on the absent path: find it
					lk, key := "", ""
					for _, p := range paths {
						for _, pe := range p.r.events {
							if pe.kind == "lookup" {
								if v, ok := p.r.fields[e.field]; ok && v.k == "lookupval" && p.r.events[v.ev].call == pe.call {
									lk, key = pe.lookup, pe.key
								}
							}
						}
					}
					if lk == "" {
						return nil, "absent union without look-up"
					}
					ops = append(ops, c.unionOp(e.node, e.field, lk, key, "mat"))
					continue
				}
				return nil, "union field handled in an unknown way: " + e.field
			}
			if e.at.k != "field" {
				// present pointer replaced before use: not one of the modelled ways
				return nil, "field " + e.field + " replaced before its method is called"
			}
			g := guard[e.field]
			if g == "skip" {
				return nil, "skipped nested message (only frames skip their body)"
			}
			ops = append(ops, c.nestedOp(e.node, e.field, g))
		case "write":
			name, targs, args, _ := codecCall(e.call)
			f := e.field
			if strings.Contains(name, "ObjectList") {
				_, en := endianOf(name)
				et := strings.TrimPrefix(c.ftype[f], "[]*")
				id, ok := c.tyID(c.pi.short, et)
				if !ok || len(targs) != 1 || scalarWidth(targs[0]) == 0 || len(args) != 2 || !strings.HasPrefix(c.ftype[f], "[]*") {
					return nil, "object list write: " + src(e.node)
				}
				ops = append(ops, logCall(true, name, Op{K: "objs", CW: scalarWidth(targs[0]), Ty: id, TyN: c.pi.short + "." + et, E: en, F: f}))
				continue
			}
			op, ok := c.primOp(true, name, targs, args[2:], c.ftype[f])
			if !ok {
				return nil, "primitive write: " + src(e.node)
			}
			op.F = f
			ops = append(ops, op)
		case "placeholder", "patch", "calc":
			return nil, "frame statement in a plain message: " + src(e.node)
		case "rawwrite":
			ops = append(ops, *e.raw)
		case "binwrite":
			ce := e.call.(*ast.CallExpr)
			w := scalarWidth(c.ftype[e.field])
			en := map[string]string{"binary.BigEndian": "be", "binary.LittleEndian": "le"}[src(ce.Args[1])]
			if w == 0 || en == "" {
				return nil, "binary.Write: " + src(e.node)
			}
			ops = append(ops, Op{K: "scalar", W: w, E: en, F: e.field})
		}
	}
	order := "be"
	for _, o := range ops {
		if o.E != "" {
			order = o.E
			break
		}
	}
	for i := range ops {
		if ops[i].K == "scalar" && ops[i].W == 1 && ops[i].E == "" {
			ops[i].E = order // one byte has no byte order; the method's order keeps the op list uniform
		}
	}
	for _, o := range ops {
		if o.K == "opaque" {
			return nil, "unrecognised call: " + o.Src
		}
	}
	return ops, ""
}

// symFrame: the descriptor of a self-measuring frame's Encode, read off its symbolic execution:
//   header scalars, a zero placeholder of width 4, the body (skipped when absent), the length patched into the placeholder
//   (= bytes between the end of the placeholder and the end of the body, same byte order as the placeholder), and
//   optionally a checksum computed by a registered service over everything from the frame's first byte, written last.
func (c *ctx) symFrame(fd *ast.FuncDecl) (*Frame, string) {
	_, ref, guard, why := c.symPaths(fd, true)
	if why != "" {
		return nil, why
	}
	fr := &Frame{}
	evs := ref.events
	i := 0
	scalarOf := func(e sevent) (Op, bool) {
		if e.kind == "rawwrite" {
			return *e.raw, e.raw.E != ""
		}
		name, targs, args, _ := codecCall(e.call)
		op, ok := c.primOp(true, name, targs, args[2:], c.ftype[e.field])
		return op, ok && op.K == "scalar"
	}
	for ; i < len(evs) && (evs[i].kind == "write" || evs[i].kind == "rawwrite"); i++ {
		e := evs[i]
		op, ok := scalarOf(e)
		if !ok || e.at.k != "field" {
			return nil, "header statement: " + src(e.node)
		}
		op.F = e.field
		if c.fidx[e.field] != len(fr.Hdr) {
			return nil, "header field order: " + src(e.node)
		}
		fr.Hdr = append(fr.Hdr, op)
	}
	nh := len(fr.Hdr)
	if i+3 > len(evs) || evs[i].kind != "placeholder" || evs[i+1].kind != "encode" || evs[i+2].kind != "patch" {
		return nil, "not placeholder / body / patch"
	}
	ph, body, patch := evs[i], evs[i+1], evs[i+2]
	if ph.raw.W != 4 {
		return nil, "placeholder width"
	}
	fr.LenW, fr.E = 4, ph.raw.E
	if fr.E == "" {
		fr.E = patch.raw.E // zero bytes have no byte order: the patch decides
	}
	if c.ftype[body.field] != "codec.BinaryCodec" || c.fidx[body.field] != nh+1 || body.at.k != "field" || guard[body.field] != "skip" {
		return nil, "body statement: " + src(body.node)
	}
	fr.G = "skip"
	if len(c.fields) < nh+2 {
		return nil, "too few fields"
	}
	lenField := c.fields[nh].Name
	if c.ftype[lenField] != "uint32" {
		return nil, "length field type"
	}
	// the patch: at the placeholder, same width and byte order, value = end of body - end of placeholder
	if patch.key != fmt.Sprint(i) || patch.raw.W != 4 || patch.raw.E != fr.E {
		return nil, "length patch: " + src(patch.node)
	}
	if patch.at.k != "span" || patch.at.ev != i+2 || patch.at.ev2 != i+1 {
		return nil, "patched length is not the body's size: " + src(patch.node)
	}
	if lv, ok := ref.fields[lenField]; !ok || lv.k != "span" || lv.ev != i+2 || lv.ev2 != i+1 || lv.f != "uint32" {
		return nil, "length field is not set to the body's size"
	}
	fr.Facts = append(fr.Facts, "placeholder-width-4", "patch-at-remembered-offset", "patch-order-matches-placeholder", "length=end-start")
	rest := evs[i+3:]
	switch {
	case len(rest) == 0:
		if len(c.fields) != nh+2 {
			return nil, "fields after the body are not written"
		}
	case len(rest) == 2 && rest[0].kind == "calc" && (rest[1].kind == "write" || rest[1].kind == "rawwrite"):
		calc, tr := rest[0], rest[1]
		if calc.at.k != "mark" || calc.at.ev != 0 || calc.at.off != 0 {
			return nil, "checksum does not start at the frame's first byte: " + src(calc.node)
		}
		cf := tr.field
		if c.fidx[cf] != nh+2 || len(c.fields) != nh+3 {
			return nil, "checksum trailer field: " + src(tr.node)
		}
		if tr.at.k != "cks" || tr.at.ev != i+3 {
			return nil, "trailer is not the computed checksum: " + src(tr.node)
		}
		top, ok := scalarOf(tr)
		if !ok || top.E != fr.E {
			return nil, "checksum trailer: " + src(tr.node)
		}
		if calc.key != c.ftype[cf] {
			return nil, "checksum result type differs from the field's: " + src(calc.node)
		}
		fr.Cks, fr.CksW = calc.lookup, top.W
		fr.Facts = append(fr.Facts, "checksum-after-patch", "checksum-from-frame-start", "checksum-result-type-matches-field")
	default:
		return nil, "statements after the length patch"
	}
	// nothing else may be assigned
	for f, v := range ref.fields {
		if f == lenField && v.k == "span" {
			continue
		}
		if fr.Cks != "" && c.fidx[f] == nh+2 && v.k == "cks" {
			continue
		}
		return nil, "field " + f + " assigned"
	}
	return fr, ""
}
