package main

// Two small evaluators behind the discriminator tables, used when the shape recognisers of `tables` do not apply:
//
//   lookupSym   runs a look-up function `func NewXByY(key K) (codec.BinaryCodec, error)` once for "the key is in the map"
//               and once for "it is not" and accepts it when it returns (factory(), nil) resp. (nil, <fresh error>) and does
//               nothing else (one map read, no writes, no other calls);
//   initEntries partially evaluates the package's init functions: calls `Reg(<literal>, <factory>)`, possibly inside
//               `for … range <composite literal>` loops whose loop variables are replaced by the literal's elements.

import (
	"go/ast"
	"go/token"
)

type lkval struct {
	k string // made (factory()), factory, nil, err, bool, zero
	b bool
}

func lookupSym(fd *ast.FuncDecl) (cache string, ok bool) {
	if fd.Type.Params == nil || len(fd.Type.Params.List) != 1 || len(fd.Type.Params.List[0].Names) != 1 {
		return "", false
	}
	key := fd.Type.Params.List[0].Names[0].Name
	var named []string
	for _, r := range fd.Type.Results.List {
		for _, n := range r.Names {
			named = append(named, n.Name)
		}
	}
	if len(named) != 0 && len(named) != 2 {
		return "", false
	}
	for _, present := range []bool{true, false} {
		env := map[string]lkval{}
		for _, n := range named {
			env[n] = lkval{k: "zero"}
		}
		loads := 0
		bad := false
		var ret []lkval
		var eval func(e ast.Expr) lkval
		eval = func(e ast.Expr) lkval {
			switch x := e.(type) {
			case *ast.ParenExpr:
				return eval(x.X)
			case *ast.Ident:
				switch x.Name {
				case "nil":
					return lkval{k: "nil"}
				case "true", "false":
					return lkval{k: "bool", b: x.Name == "true"}
				}
				if v, ok := env[x.Name]; ok {
					return v
				}
			case *ast.UnaryExpr:
				if x.Op == token.NOT {
					if v := eval(x.X); v.k == "bool" {
						return lkval{k: "bool", b: !v.b}
					}
				}
			case *ast.CallExpr:
				if s := src(x.Fun); (s == "fmt.Errorf" || s == "errors.New") && plainArgs(x) {
					return lkval{k: "err"}
				}
				if len(x.Args) == 0 {
					if v := eval(x.Fun); v.k == "factory" {
						return lkval{k: "made"}
					}
				}
			}
			bad = true
			return lkval{k: "?"}
		}
		load := func(s ast.Stmt) bool {
			as, ok := s.(*ast.AssignStmt)
			if !ok || as.Tok != token.DEFINE || len(as.Lhs) != 2 || len(as.Rhs) != 1 {
				return false
			}
			ix, ok := as.Rhs[0].(*ast.IndexExpr)
			if !ok || ident(ix.Index) != key || ident(ix.X) == "" {
				return false
			}
			if cache != "" && cache != ident(ix.X) {
				bad = true
			}
			cache = ident(ix.X)
			loads++
			if n := ident(as.Lhs[0]); n != "_" {
				if present {
					env[n] = lkval{k: "factory"}
				} else {
					env[n] = lkval{k: "nil"}
				}
			}
			if n := ident(as.Lhs[1]); n != "_" {
				env[n] = lkval{k: "bool", b: present}
			}
			return true
		}
		var exec func(stmts []ast.Stmt) bool
		exec = func(stmts []ast.Stmt) bool { // true when returned
			for _, s := range stmts {
				if bad {
					return true
				}
				switch x := s.(type) {
				case *ast.AssignStmt:
					if load(x) {
						continue
					}
					if len(x.Lhs) == len(x.Rhs) {
						for i := range x.Lhs {
							n := ident(x.Lhs[i])
							if n == "" {
								bad = true
								return true
							}
							env[n] = eval(x.Rhs[i])
						}
						continue
					}
					bad = true
				case *ast.IfStmt:
					if x.Init != nil && !load(x.Init) {
						bad = true
						return true
					}
					c := eval(x.Cond)
					if c.k != "bool" {
						bad = true
						return true
					}
					if c.b {
						if exec(x.Body.List) {
							return true
						}
					} else if x.Else != nil {
						if exec([]ast.Stmt{x.Else}) {
							return true
						}
					}
				case *ast.BlockStmt:
					if exec(x.List) {
						return true
					}
				case *ast.SwitchStmt:
					if x.Tag != nil || (x.Init != nil && !load(x.Init)) {
						bad = true
						return true
					}
					var chosen, deflt *ast.CaseClause
					for _, cs := range x.Body.List {
						cc := cs.(*ast.CaseClause)
						if cc.List == nil {
							deflt = cc
						} else if chosen == nil {
							for _, e := range cc.List {
								if c := eval(e); c.k == "bool" && c.b {
									chosen = cc
								} else if c.k != "bool" {
									bad = true
								}
							}
						}
					}
					if chosen == nil {
						chosen = deflt
					}
					if chosen != nil && exec(chosen.Body) {
						return true
					}
				case *ast.ReturnStmt:
					if len(x.Results) == 0 && len(named) == 2 {
						ret = []lkval{env[named[0]], env[named[1]]}
					} else {
						for _, e := range x.Results {
							ret = append(ret, eval(e))
						}
					}
					return true
				default:
					bad = true
					return true
				}
			}
			return false
		}
		if !exec(fd.Body.List) || bad || loads != 1 || len(ret) != 2 {
			return "", false
		}
		isNil := func(v lkval) bool { return v.k == "nil" || v.k == "zero" }
		if present && !(ret[0].k == "made" && isNil(ret[1])) {
			return "", false
		}
		if !present && !(isNil(ret[0]) && ret[1].k == "err") {
			return "", false
		}
	}
	return cache, cache != ""
}

// substitute replaces identifiers by expressions (loop variables by literal elements)
func substitute(e ast.Expr, env map[string]ast.Expr) ast.Expr {
	switch x := e.(type) {
	case *ast.Ident:
		if v, ok := env[x.Name]; ok {
			return v
		}
	case *ast.SelectorExpr:
		base := substitute(x.X, env)
		// field of a struct literal: positional or keyed
		if cl, ok := base.(*ast.CompositeLit); ok {
			if st, ok := cl.Type.(*ast.StructType); ok {
				idx, i := -1, 0
				for _, f := range st.Fields.List {
					for _, n := range f.Names {
						if n.Name == x.Sel.Name {
							idx = i
						}
						i++
					}
				}
				for j, el := range cl.Elts {
					if kv, ok := el.(*ast.KeyValueExpr); ok {
						if ident(kv.Key) == x.Sel.Name {
							return kv.Value
						}
					} else if j == idx {
						return el
					}
				}
			}
		}
		if base != x.X {
			return &ast.SelectorExpr{X: base, Sel: x.Sel}
		}
	}
	return e
}

// the element expressions of a slice / array composite literal, each given the literal's element type when elided
func literalElems(e ast.Expr) ([]ast.Expr, bool) {
	cl, ok := e.(*ast.CompositeLit)
	if !ok {
		return nil, false
	}
	at, ok := cl.Type.(*ast.ArrayType)
	if !ok {
		return nil, false
	}
	var out []ast.Expr
	for _, el := range cl.Elts {
		if _, isKV := el.(*ast.KeyValueExpr); isKV {
			return nil, false
		}
		if inner, ok := el.(*ast.CompositeLit); ok && inner.Type == nil {
			el = &ast.CompositeLit{Type: at.Elt, Elts: inner.Elts, Lbrace: inner.Lbrace, Rbrace: inner.Rbrace}
		}
		out = append(out, el)
	}
	return out, true
}

// initCalls lists the calls `fn(args…)` an init body makes, with range loops over literals unrolled; ok=false when a
// statement is something else
func initCalls(stmts []ast.Stmt, env map[string]ast.Expr, out *[]*ast.CallExpr) bool {
	for _, s := range stmts {
		switch x := s.(type) {
		case *ast.ExprStmt:
			c, ok := x.X.(*ast.CallExpr)
			if !ok {
				return false
			}
			nc := &ast.CallExpr{Fun: c.Fun, Lparen: c.Lparen, Rparen: c.Rparen}
			for _, a := range c.Args {
				nc.Args = append(nc.Args, substitute(a, env))
			}
			*out = append(*out, nc)
		case *ast.RangeStmt:
			if x.Tok != token.DEFINE || x.Value == nil || (x.Key != nil && ident(x.Key) != "_") {
				return false
			}
			elems, ok := literalElems(substitute(x.X, env))
			if !ok {
				return false
			}
			for _, el := range elems {
				ne := map[string]ast.Expr{}
				for k, v := range env {
					ne[k] = v
				}
				ne[ident(x.Value)] = el
				if !initCalls(x.Body.List, ne, out) {
					return false
				}
			}
		case *ast.BlockStmt:
			if !initCalls(x.List, env, out) {
				return false
			}
		default:
			return false
		}
	}
	return true
}
