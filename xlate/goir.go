package main

// Syntax-directed translation of codec/binary_codec.go and the Calc bodies of codec/checksum.go into the deep embedding
// lean/FinProto/GoIR.lean: every statement and expression becomes the constructor of the same name, local variables become
// numbered slots in order of declaration (so that a renaming changes nothing), and a construct the language does not have
// becomes `.opaque` (which the semantics runs as a panic and no proof accepts).  No templates and no holes: the meaning of
// the result is GoIR's semantics, and that the translated bodies compute the primitive model is proved in Lean.

import (
	"fmt"
	"go/ast"
	"go/token"
	"sort"
	"strconv"
	"strings"
)

type irFunc struct {
	name    string
	tparams []string          // type parameter names
	tpKind  map[string]string // "num" (BasicType / Unsigned) or "obj" (BinaryCodec)
	params  []string          // value parameter types (after the buffer)
	results []string          // result types
	decl    *ast.FuncDecl
	isCalc  bool
}

type irCtx struct {
	fns    map[string]*irFunc
	index  map[string]int
	fn     *irFunc
	buf    string
	scopes []map[string]int
	types  map[int]string // slot -> Go type
	next   int
	bad    []string
}

var calcOrder = []string{"Crc16ChecksumService", "Crc32ChecksumService", "SseBinChecksumService", "SzseBinChecksumService"}

func (c *irCtx) fail(n ast.Node, why string) {
	c.bad = append(c.bad, why+": "+src2(n))
}

func (c *irCtx) push() { c.scopes = append(c.scopes, map[string]int{}) }
func (c *irCtx) pop()  { c.scopes = c.scopes[:len(c.scopes)-1] }
func (c *irCtx) lookup(name string) (int, bool) {
	for i := len(c.scopes) - 1; i >= 0; i-- {
		if s, ok := c.scopes[i][name]; ok {
			return s, true
		}
	}
	return 0, false
}
func (c *irCtx) declare(name, ty string) int {
	if ty == "const" {
		ty = "int" // an untyped integer constant defaults to int
	}
	s := c.next
	c.next++
	if name != "_" && name != "" {
		c.scopes[len(c.scopes)-1][name] = s
	}
	c.types[s] = ty
	return s
}
func (c *irCtx) tmp(ty string) int { return c.declare("", ty) }

func tyRefOf(c *irCtx, t string, forArith bool) (string, bool) {
	for i, p := range c.fn.tparams {
		if p == t {
			return fmt.Sprintf("(.param %d)", i), true
		}
	}
	switch t {
	case "uint8", "byte":
		return "(.ty (.u 1))", true
	case "uint16":
		return "(.ty (.u 2))", true
	case "uint32":
		return "(.ty (.u 4))", true
	case "uint64":
		return "(.ty (.u 8))", true
	case "int8":
		return "(.ty (.s 1))", true
	case "int16":
		return "(.ty (.s 2))", true
	case "int32", "rune":
		return "(.ty (.s 4))", true
	case "int64":
		return "(.ty (.s 8))", true
	case "int":
		if forArith {
			return "(.ty .big)", true
		}
		return "(.ty (.s 8))", true
	}
	return "", false
}

func isIntType(c *irCtx, t string) bool { _, ok := tyRefOf(c, t, true); return ok }

// static type of an expression ("" = unknown, "const" = untyped constant)
func (c *irCtx) typeOf(e ast.Expr) string {
	switch x := e.(type) {
	case *ast.ParenExpr:
		return c.typeOf(x.X)
	case *ast.BasicLit:
		if x.Kind == token.STRING {
			return "string"
		}
		return "const"
	case *ast.Ident:
		if s, ok := c.lookup(x.Name); ok {
			return c.types[s]
		}
		if x.Name == "true" || x.Name == "false" {
			return "bool"
		}
		return ""
	case *ast.UnaryExpr:
		if x.Op == token.NOT {
			return "bool"
		}
		if x.Op == token.AND {
			return c.typeOf(x.X)
		}
		return c.typeOf(x.X)
	case *ast.BinaryExpr:
		switch x.Op {
		case token.LSS, token.GTR, token.LEQ, token.GEQ, token.EQL, token.NEQ, token.LAND, token.LOR:
			return "bool"
		case token.SHL, token.SHR:
			return c.typeOf(x.X)
		}
		a, b := c.typeOf(x.X), c.typeOf(x.Y)
		if a == "const" {
			return b
		}
		return a
	case *ast.IndexExpr:
		t := c.typeOf(x.X)
		if strings.HasPrefix(t, "[]") {
			return t[2:]
		}
		if t == "string" {
			return "byte"
		}
		return ""
	case *ast.SliceExpr:
		return c.typeOf(x.X)
	case *ast.CompositeLit:
		return typeStr(x.Type)
	case *ast.CallExpr:
		if id, ok := x.Fun.(*ast.Ident); ok {
			switch id.Name {
			case "len", "min", "cap":
				return "int"
			case "string":
				return "string"
			case "make":
				if len(x.Args) > 0 {
					return typeStr(x.Args[0])
				}
			case "append":
				if len(x.Args) > 0 {
					return c.typeOf(x.Args[0])
				}
			}
			if isIntType(c, id.Name) && len(x.Args) == 1 {
				return id.Name
			}
		}
		if at, ok := x.Fun.(*ast.ArrayType); ok {
			return typeStr(at)
		}
		if sel, ok := x.Fun.(*ast.SelectorExpr); ok {
			if id, ok := sel.X.(*ast.Ident); ok {
				if id.Name == c.buf && sel.Sel.Name == "Len" {
					return "int"
				}
				if id.Name == c.buf && sel.Sel.Name == "Bytes" {
					return "[]byte"
				}
				if id.Name == "bytes" && sel.Sel.Name == "Repeat" {
					return "[]byte"
				}
				if id.Name == "crc32" && sel.Sel.Name == "ChecksumIEEE" {
					return "uint32"
				}
			}
		}
	}
	return ""
}

func endianName(e ast.Expr) (string, bool) {
	if sel, ok := e.(*ast.SelectorExpr); ok {
		if id, ok := sel.X.(*ast.Ident); ok && id.Name == "binary" {
			switch sel.Sel.Name {
			case "BigEndian":
				return ".be", true
			case "LittleEndian":
				return ".le", true
			}
		}
	}
	return "", false
}

func leanInt(n int64) string {
	if n < 0 {
		return fmt.Sprintf("(.int (%d))", n)
	}
	return fmt.Sprintf("(.int %d)", n)
}

var aopNames = map[token.Token]string{token.ADD: ".add", token.SUB: ".sub", token.MUL: ".mul", token.REM: ".mod", token.AND: ".band",
	token.XOR: ".bxor", token.OR: ".bor", token.SHR: ".shr", token.SHL: ".shl", token.QUO: ".div"}
var copNames = map[token.Token]string{token.LSS: ".lt", token.LEQ: ".le", token.GTR: ".gt", token.GEQ: ".ge", token.EQL: ".eq", token.NEQ: ".ne"}
var assignOps = map[token.Token]token.Token{token.ADD_ASSIGN: token.ADD, token.SUB_ASSIGN: token.SUB, token.MUL_ASSIGN: token.MUL, token.REM_ASSIGN: token.REM,
	token.QUO_ASSIGN: token.QUO, token.AND_ASSIGN: token.AND, token.XOR_ASSIGN: token.XOR, token.OR_ASSIGN: token.OR, token.SHR_ASSIGN: token.SHR, token.SHL_ASSIGN: token.SHL}

// want: the Go type the context expects ("error" decides what `nil` is)
func (c *irCtx) expr(e ast.Expr, want string) string {
	switch x := e.(type) {
	case *ast.ParenExpr:
		return c.expr(x.X, want)
	case *ast.BasicLit:
		switch x.Kind {
		case token.INT:
			if n, err := strconv.ParseInt(x.Value, 0, 64); err == nil {
				return leanInt(n)
			}
		case token.CHAR:
			if r, _, _, err := strconv.UnquoteChar(strings.Trim(x.Value, "'"), '\''); err == nil {
				return leanInt(int64(r))
			}
		case token.STRING:
			if x.Value == `""` {
				return ".emptyStr"
			}
		}
	case *ast.Ident:
		if s, ok := c.lookup(x.Name); ok {
			return fmt.Sprintf("(.var %d)", s)
		}
		switch x.Name {
		case "nil":
			if want == "error" {
				return ".nilErr"
			}
			return ".nil"
		case "true":
			return "(.bool true)"
		case "false":
			return "(.bool false)"
		}
	case *ast.SelectorExpr:
		if o, ok := endianName(x); ok {
			return "(.order " + o + ")"
		}
		if id, ok := x.X.(*ast.Ident); ok && id.Name == "io" && (x.Sel.Name == "ErrUnexpectedEOF" || x.Sel.Name == "EOF") {
			return ".newErr"
		}
	case *ast.UnaryExpr:
		if x.Op == token.NOT {
			return "(.not " + c.expr(x.X, "bool") + ")"
		}
		if x.Op == token.XOR { // ^T(0)
			if call, ok := x.X.(*ast.CallExpr); ok && len(call.Args) == 1 {
				if id, ok := call.Fun.(*ast.Ident); ok {
					if lit, ok := call.Args[0].(*ast.BasicLit); ok && lit.Value == "0" {
						if t, ok := tyRefOf(c, id.Name, false); ok {
							return "(.maxOf " + t + ")"
						}
					}
				}
			}
		}
	case *ast.BinaryExpr:
		switch x.Op {
		case token.LAND:
			return "(.and " + c.expr(x.X, "bool") + " " + c.expr(x.Y, "bool") + ")"
		case token.LOR:
			return "(.or " + c.expr(x.X, "bool") + " " + c.expr(x.Y, "bool") + ")"
		}
		if op, ok := copNames[x.Op]; ok {
			w := ""
			if c.typeOf(x.X) == "error" || c.typeOf(x.Y) == "error" {
				w = "error"
			}
			return "(.cmp " + op + " " + c.expr(x.X, w) + " " + c.expr(x.Y, w) + ")"
		}
		if op, ok := aopNames[x.Op]; ok {
			t := c.typeOf(x)
			if t == "const" {
				t = "int"
			}
			if tr, ok := tyRefOf(c, t, true); ok {
				return "(.arith " + op + " " + tr + " " + c.expr(x.X, t) + " " + c.expr(x.Y, t) + ")"
			}
		}
	case *ast.IndexExpr:
		if t := c.typeOf(x.X); t == "[]byte" || t == "string" {
			return "(.index " + c.expr(x.X, "") + " " + c.expr(x.Index, "int") + ")"
		} else if strings.HasPrefix(t, "[]") && (t == "[]string" || isIntType(c, t[2:]) || c.fn.tpKind[t[2:]] == "obj") {
			return "(.elem " + c.expr(x.X, "") + " " + c.expr(x.Index, "int") + ")"
		}
	case *ast.SliceExpr:
		if t := c.typeOf(x.X); (t == "[]byte" || t == "string") && !x.Slice3 {
			if x.Low != nil && x.High == nil {
				return "(.sliceFrom " + c.expr(x.X, "") + " " + c.expr(x.Low, "int") + ")"
			}
			if x.Low == nil && x.High != nil {
				return "(.sliceTo " + c.expr(x.X, "") + " " + c.expr(x.High, "int") + ")"
			}
			if x.Low != nil && x.High != nil {
				return "(.sliceFrom (.sliceTo " + c.expr(x.X, "") + " " + c.expr(x.High, "int") + ") " + c.expr(x.Low, "int") + ")"
			}
			return c.expr(x.X, "")
		}
	case *ast.CompositeLit:
		if typeStr(x.Type) == "[]byte" && len(x.Elts) == 1 {
			return "(.bytes1 " + c.expr(x.Elts[0], "byte") + ")"
		}
	case *ast.CallExpr:
		if at, ok := x.Fun.(*ast.ArrayType); ok && typeStr(at) == "[]byte" && len(x.Args) == 1 && c.typeOf(x.Args[0]) == "string" {
			return "(.toBytes " + c.expr(x.Args[0], "") + ")"
		}
		if id, ok := x.Fun.(*ast.Ident); ok {
			switch {
			case id.Name == "len" && len(x.Args) == 1:
				return "(.len " + c.expr(x.Args[0], "") + ")"
			case id.Name == "min" && len(x.Args) == 2:
				return "(.min " + c.expr(x.Args[0], "int") + " " + c.expr(x.Args[1], "int") + ")"
			case id.Name == "string" && len(x.Args) == 1 && c.typeOf(x.Args[0]) == "[]byte":
				return "(.toStr " + c.expr(x.Args[0], "") + ")"
			case len(x.Args) == 1:
				if t, ok := tyRefOf(c, id.Name, false); ok {
					return "(.conv " + t + " " + c.expr(x.Args[0], "") + ")"
				}
			}
		}
		if sel, ok := x.Fun.(*ast.SelectorExpr); ok {
			if id, ok := sel.X.(*ast.Ident); ok {
				switch {
				case id.Name == c.buf && sel.Sel.Name == "Len" && len(x.Args) == 0:
					return ".bufLen"
				case id.Name == c.buf && sel.Sel.Name == "Bytes" && len(x.Args) == 0:
					return ".bufBytes"
				case id.Name == "bytes" && sel.Sel.Name == "Repeat" && len(x.Args) == 2:
					return "(.repeat " + c.expr(x.Args[0], "") + " " + c.expr(x.Args[1], "int") + ")"
				case id.Name == "binary" && sel.Sel.Name == "Size" && len(x.Args) == 1:
					// binary.Size(T(0)) with T one of the fixed-width integer types: a constant; for a type parameter it is not
					// expressible (the language has no sizeof)
					if call, ok := x.Args[0].(*ast.CallExpr); ok {
						if tid, ok := call.Fun.(*ast.Ident); ok {
							if w := scalarWidth(tid.Name); w > 0 {
								return leanInt(int64(w))
							}
						}
					}
				case id.Name == "crc32" && sel.Sel.Name == "ChecksumIEEE" && len(x.Args) == 1:
					return "(.crc32 " + c.expr(x.Args[0], "") + ")"
				case (id.Name == "errors" && sel.Sel.Name == "New") || (id.Name == "fmt" && sel.Sel.Name == "Errorf"):
					// a fresh non-nil error; its text is not part of any property, but its arguments must be effect-free
					for _, a := range x.Args {
						if !c.pureArg(a) {
							c.fail(a, "argument of an error message with an effect")
							return ".newErr /- ? -/"
						}
					}
					return ".newErr"
				}
			}
		}
	}
	c.fail(e, "expression")
	return "(.var 999999)"
}

// arguments of an error message: literals, variables, conversions, len, binary.Size
func (c *irCtx) pureArg(e ast.Expr) bool {
	ok := true
	ast.Inspect(e, func(n ast.Node) bool {
		if call, isCall := n.(*ast.CallExpr); isCall {
			switch f := call.Fun.(type) {
			case *ast.Ident:
				if !(f.Name == "len" || f.Name == "string" || isIntType(c, f.Name)) {
					ok = false
				}
			case *ast.SelectorExpr:
				if id, isID := f.X.(*ast.Ident); !(isID && id.Name == "binary" && f.Sel.Name == "Size") {
					ok = false
				}
			default:
				ok = false
			}
		}
		return ok
	})
	return ok
}

func seqOf(parts []string) string {
	var keep []string
	for _, p := range parts {
		if p != "" && p != ".skip" {
			keep = append(keep, p)
		}
	}
	if len(keep) == 0 {
		return ".skip"
	}
	out := keep[len(keep)-1]
	for i := len(keep) - 2; i >= 0; i-- {
		out = "(.seq " + keep[i] + "\n " + out + ")"
	}
	return out
}

func optSlot(s int, ok bool) string {
	if !ok {
		return "none"
	}
	return fmt.Sprintf("(some %d)", s)
}

// a call with effects on the buffer; lhs: destination expressions (nil = none), define: `:=`
func (c *irCtx) callStmt(call *ast.CallExpr, lhs []ast.Expr, define bool) (string, bool) {
	// destinations are resolved AFTER the arguments are translated (x := f(x) reads the old x)
	type dst struct {
		slot int
		ok   bool
	}
	mkDsts := func(types []string) []dst {
		out := make([]dst, len(types))
		for i := range types {
			if i >= len(lhs) {
				continue
			}
			id, isID := lhs[i].(*ast.Ident)
			if !isID {
				c.fail(lhs[i], "destination")
				continue
			}
			if id.Name == "_" {
				continue
			}
			if define {
				if _, here := c.scopes[len(c.scopes)-1][id.Name]; here {
					s, _ := c.lookup(id.Name)
					out[i] = dst{s, true}
				} else {
					out[i] = dst{c.declare(id.Name, types[i]), true}
				}
			} else if s, found := c.lookup(id.Name); found {
				out[i] = dst{s, true}
			} else {
				c.fail(lhs[i], "unknown destination")
			}
		}
		return out
	}
	if lhs != nil {
		// arity must match
	}
	switch f := call.Fun.(type) {
	case *ast.SelectorExpr:
		id, _ := f.X.(*ast.Ident)
		if id == nil {
			return "", false
		}
		switch {
		case id.Name == "binary" && f.Sel.Name == "Write" && len(call.Args) == 3 && isIdent(call.Args[0], c.buf):
			ord := c.expr(call.Args[1], "")
			val := call.Args[2]
			if u, ok := val.(*ast.UnaryExpr); ok && u.Op == token.AND {
				val = u.X
			}
			t, ok := tyRefOf(c, c.typeOf(val), false)
			if !ok {
				c.fail(call, "binary.Write of a value whose type is not an integer type")
				return ".opaque", true
			}
			v := c.expr(val, "")
			d := mkDsts([]string{"error"})
			return fmt.Sprintf("(.binWrite %s %s %s %s)", ord, t, v, optSlot(d[0].slot, d[0].ok)), true
		case id.Name == "binary" && f.Sel.Name == "Read" && len(call.Args) == 3 && isIdent(call.Args[0], c.buf):
			ord := c.expr(call.Args[1], "")
			u, ok := call.Args[2].(*ast.UnaryExpr)
			if !ok || u.Op != token.AND {
				return "", false
			}
			tid, ok := u.X.(*ast.Ident)
			if !ok {
				return "", false
			}
			s, found := c.lookup(tid.Name)
			t, ok2 := tyRefOf(c, c.types[s], false)
			if !found || !ok2 {
				return "", false
			}
			d := mkDsts([]string{"error"})
			return fmt.Sprintf("(.binRead %s %s %d %s)", ord, t, s, optSlot(d[0].slot, d[0].ok)), true
		case id.Name == "io" && f.Sel.Name == "ReadFull" && len(call.Args) == 2 && isIdent(call.Args[0], c.buf):
			xid, ok := call.Args[1].(*ast.Ident)
			if !ok {
				return "", false
			}
			s, found := c.lookup(xid.Name)
			if !found || c.types[s] != "[]byte" {
				return "", false
			}
			d := mkDsts([]string{"int", "error"})
			return fmt.Sprintf("(.readFull %d %s %s)", s, optSlot(d[0].slot, d[0].ok), optSlot(d[1].slot, d[1].ok)), true
		case id.Name == c.buf && f.Sel.Name == "Read" && len(call.Args) == 1:
			xid, ok := call.Args[0].(*ast.Ident)
			if !ok {
				return "", false
			}
			s, found := c.lookup(xid.Name)
			if !found || c.types[s] != "[]byte" {
				return "", false
			}
			d := mkDsts([]string{"int", "error"})
			return fmt.Sprintf("(.bufRead %d %s %s)", s, optSlot(d[0].slot, d[0].ok), optSlot(d[1].slot, d[1].ok)), true
		case id.Name == c.buf && (f.Sel.Name == "Write" || f.Sel.Name == "WriteString") && len(call.Args) == 1:
			at := c.typeOf(call.Args[0])
			if !((f.Sel.Name == "Write" && at == "[]byte") || (f.Sel.Name == "WriteString" && at == "string")) {
				return "", false
			}
			v := c.expr(call.Args[0], "")
			d := mkDsts([]string{"int", "error"})
			return fmt.Sprintf("(.bufWrite %s %s %s)", v, optSlot(d[0].slot, d[0].ok), optSlot(d[1].slot, d[1].ok)), true
		case id.Name == c.buf && f.Sel.Name == "WriteByte" && len(call.Args) == 1 && c.typeOf(call.Args[0]) != "":
			// buf.WriteByte(b): one byte appended, the error is always nil
			v := c.expr(call.Args[0], "byte")
			d := mkDsts([]string{"error"})
			return fmt.Sprintf("(.bufWrite (.bytes1 %s) none %s)", v, optSlot(d[0].slot, d[0].ok)), true
		case id.Name == c.buf && f.Sel.Name == "Grow" && len(call.Args) == 1 && lhs == nil:
			// buf.Grow(n): capacity only (not part of the model); panics on a negative n
			return "(.ite (.cmp .lt " + c.expr(call.Args[0], "int") + " (.int 0))\n .panicS\n .skip)", true
		case f.Sel.Name == "Encode" && len(call.Args) == 1 && isIdent(call.Args[0], c.buf):
			if s, found := c.lookup(id.Name); found && c.fn.tpKind[c.types[s]] == "obj" {
				d := mkDsts([]string{"error"})
				return fmt.Sprintf("(.objEncode (.var %d) %s)", s, optSlot(d[0].slot, d[0].ok)), true
			}
		case f.Sel.Name == "Decode" && len(call.Args) == 1 && isIdent(call.Args[0], c.buf):
			if s, found := c.lookup(id.Name); found && c.fn.tpKind[c.types[s]] == "obj" {
				d := mkDsts([]string{"error"})
				return fmt.Sprintf("(.objDecode %d %s)", s, optSlot(d[0].slot, d[0].ok)), true
			}
		}
		return "", false
	}
	// newFn()
	if id, ok := call.Fun.(*ast.Ident); ok && len(call.Args) == 0 {
		if s, found := c.lookup(id.Name); found && strings.HasPrefix(c.types[s], "func() ") {
			rt := strings.TrimPrefix(c.types[s], "func() ")
			if c.fn.tpKind[rt] == "obj" {
				d := mkDsts([]string{rt})
				if d[0].ok {
					return fmt.Sprintf("(.objNew %d)", d[0].slot), true
				}
			}
		}
	}
	// a function of the package
	name, targExprs := "", []ast.Expr(nil)
	switch f := call.Fun.(type) {
	case *ast.Ident:
		name = f.Name
	case *ast.IndexExpr:
		if id, ok := f.X.(*ast.Ident); ok {
			name, targExprs = id.Name, []ast.Expr{f.Index}
		}
	case *ast.IndexListExpr:
		if id, ok := f.X.(*ast.Ident); ok {
			name, targExprs = id.Name, f.Indices
		}
	}
	callee := c.fns[name]
	if callee == nil || callee.isCalc || len(call.Args) != len(callee.params)+1 || !isIdent(call.Args[0], c.buf) {
		return "", false
	}
	// type arguments: explicit ones first, the rest inferred from the arguments
	targs := make([]string, len(callee.tparams))
	for i, te := range targExprs {
		if i < len(targs) {
			targs[i] = typeStr(te)
		}
	}
	for i, pt := range callee.params {
		for j, tp := range callee.tparams {
			if targs[j] == "" && (pt == tp || pt == "[]"+tp) {
				at := c.typeOf(call.Args[i+1])
				if pt == "[]"+tp {
					at = strings.TrimPrefix(at, "[]")
				}
				targs[j] = at
			}
		}
	}
	var tas []string
	for j, t := range targs {
		if callee.tpKind[callee.tparams[j]] == "obj" {
			tas = append(tas, "(.ty (.u 0))") // object type parameters carry no width
			continue
		}
		tr, ok := tyRefOf(c, t, false)
		if !ok {
			c.fail(call, "type argument")
			return ".opaque", true
		}
		tas = append(tas, tr)
	}
	var args []string
	for i, a := range call.Args[1:] {
		args = append(args, c.expr(a, callee.params[i]))
	}
	// result types with the callee's type parameters substituted where they are one of ours
	rts := append([]string{}, callee.results...)
	for i, rt := range rts {
		for j, tp := range callee.tparams {
			if rt == tp {
				rts[i] = targs[j]
			} else if rt == "[]"+tp {
				rts[i] = "[]" + targs[j]
			}
		}
	}
	d := mkDsts(rts)
	var ds []string
	for _, x := range d {
		ds = append(ds, optSlot(x.slot, x.ok))
	}
	return fmt.Sprintf("(.call %d [%s] [%s] [%s])", c.index[name], strings.Join(tas, ", "), strings.Join(args, ", "), strings.Join(ds, ", ")), true
}

func isIdent(e ast.Expr, name string) bool { id, ok := e.(*ast.Ident); return ok && id.Name == name }

func (c *irCtx) assignTo(lhs ast.Expr, define bool, ty string, val func() string) string {
	id, ok := lhs.(*ast.Ident)
	if !ok {
		c.fail(lhs, "assignment target")
		return ".opaque"
	}
	v := val() // translate the right-hand side before the left-hand side is declared
	if id.Name == "_" {
		return ".skip"
	}
	var s int
	if define {
		if old, here := c.scopes[len(c.scopes)-1][id.Name]; here {
			s = old
		} else {
			s = c.declare(id.Name, ty)
		}
	} else {
		var found bool
		s, found = c.lookup(id.Name)
		if !found {
			c.fail(lhs, "unknown variable")
			return ".opaque"
		}
	}
	return fmt.Sprintf("(.set %d %s)", s, v)
}

func zeroOf(c *irCtx, t string) (string, bool) {
	if t == "error" {
		return ".nilErr", true
	}
	if t == "string" {
		return ".emptyStr", true
	}
	if isIntType(c, t) {
		return "(.int 0)", true
	}
	if strings.HasPrefix(t, "[]") {
		return ".nil", true
	}
	return "", false
}

// a statement any part of which is outside the language is `.opaque` as a whole (never a half-translated statement)
func (c *irCtx) stmt(s ast.Stmt) string {
	before := len(c.bad)
	out := c.stmt1(s)
	if len(c.bad) > before {
		return ".opaque"
	}
	return out
}

func (c *irCtx) stmt1(s ast.Stmt) string {
	switch x := s.(type) {
	case *ast.BlockStmt:
		c.push()
		defer c.pop()
		return c.stmts(x.List)
	case *ast.EmptyStmt:
		return ".skip"
	case *ast.ReturnStmt:
		if len(x.Results) == 1 && len(c.fn.results) >= 1 {
			if call, ok := x.Results[0].(*ast.CallExpr); ok {
				// return F(…): the call into temporaries, then return them
				var lhs []ast.Expr
				c.push()
				defer c.pop()
				var names []string
				for i := range c.fn.results {
					n := fmt.Sprintf("ret·%d", i)
					names = append(names, n)
					lhs = append(lhs, ast.NewIdent(n))
				}
				if st, ok := c.callStmt(call, lhs, true); ok {
					var rs []string
					for _, n := range names {
						sl, _ := c.lookup(n)
						rs = append(rs, fmt.Sprintf("(.var %d)", sl))
					}
					return seqOf([]string{st, "(.ret [" + strings.Join(rs, ", ") + "])"})
				}
			}
		}
		if len(x.Results) != len(c.fn.results) {
			c.fail(s, "return arity")
			return ".opaque"
		}
		var rs []string
		for i, r := range x.Results {
			rs = append(rs, c.expr(r, c.fn.results[i]))
		}
		return "(.ret [" + strings.Join(rs, ", ") + "])"
	case *ast.ExprStmt:
		if call, ok := x.X.(*ast.CallExpr); ok {
			if id, ok := call.Fun.(*ast.Ident); ok && id.Name == "panic" && len(call.Args) == 1 && c.pureArg(call.Args[0]) {
				if _, shadowed := c.lookup("panic"); !shadowed {
					return ".panicS"
				}
			}
			if st, ok := c.callStmt(call, nil, false); ok {
				return st
			}
		}
	case *ast.DeclStmt:
		gd, ok := x.Decl.(*ast.GenDecl)
		if !ok || gd.Tok != token.VAR {
			break
		}
		var parts []string
		for _, sp := range gd.Specs {
			vs := sp.(*ast.ValueSpec)
			t := typeStr(vs.Type)
			for i, n := range vs.Names {
				if len(vs.Values) > i {
					val := vs.Values[i]
					if vs.Type == nil {
						t = c.typeOf(val)
					}
					parts = append(parts, c.assignTo(n, true, t, func() string { return c.expr(val, t) }))
				} else if z, ok := zeroOf(c, t); ok {
					parts = append(parts, c.assignTo(n, true, t, func() string { return z }))
				} else {
					c.fail(s, "zero value")
					return ".opaque"
				}
			}
		}
		return seqOf(parts)
	case *ast.IncDecStmt:
		t := c.typeOf(x.X)
		tr, ok := tyRefOf(c, t, true)
		if !ok {
			break
		}
		op := ".add"
		if x.Tok == token.DEC {
			op = ".sub"
		}
		return c.assignTo(x.X, false, t, func() string { return "(.arith " + op + " " + tr + " " + c.expr(x.X, t) + " (.int 1))" })
	case *ast.AssignStmt:
		define := x.Tok == token.DEFINE
		if bop, ok := assignOps[x.Tok]; ok && len(x.Lhs) == 1 && len(x.Rhs) == 1 {
			t := c.typeOf(x.Lhs[0])
			tr, ok := tyRefOf(c, t, true)
			if !ok {
				break
			}
			return c.assignTo(x.Lhs[0], false, t, func() string {
				return "(.arith " + aopNames[bop] + " " + tr + " " + c.expr(x.Lhs[0], t) + " " + c.expr(x.Rhs[0], t) + ")"
			})
		}
		if x.Tok != token.ASSIGN && !define {
			break
		}
		// x[i] = e on a byte slice
		if ix, ok := x.Lhs[0].(*ast.IndexExpr); ok && len(x.Lhs) == 1 && len(x.Rhs) == 1 && !define {
			if id, ok := ix.X.(*ast.Ident); ok {
				if sl, found := c.lookup(id.Name); found && c.types[sl] == "[]byte" {
					return fmt.Sprintf("(.setByte %d %s %s)", sl, c.expr(ix.Index, "int"), c.expr(x.Rhs[0], "byte"))
				}
			}
		}
		if len(x.Rhs) == 1 {
			if call, ok := x.Rhs[0].(*ast.CallExpr); ok {
				// make / append / effectful calls
				if id, ok := call.Fun.(*ast.Ident); ok && len(x.Lhs) == 1 {
					if id.Name == "make" && len(call.Args) >= 2 {
						t := typeStr(call.Args[0])
						if t == "[]byte" && len(call.Args) == 2 {
							return c.stmtWithDst(x.Lhs[0], define, t, func(sl int) string {
								return fmt.Sprintf("(.makeBytes %d %s)", sl, "%s")
							}, call.Args[1])
						}
						if strings.HasPrefix(t, "[]") && len(call.Args) == 3 && isLit(call.Args[1], "0") {
							kind := ""
							et := t[2:]
							switch {
							case et == "string":
								kind = ".strs"
							case c.fn.tpKind[et] == "obj":
								kind = ".objs"
							case isIntType(c, et):
								kind = ".ints"
							}
							if kind != "" {
								return c.stmtWithDst(x.Lhs[0], define, t, func(sl int) string {
									return fmt.Sprintf("(.makeList %d %s %s)", sl, kind, "%s")
								}, call.Args[2])
							}
						}
					}
					if id.Name == "append" && len(call.Args) == 2 && !define {
						if l, ok := x.Lhs[0].(*ast.Ident); ok && isIdent(call.Args[0], l.Name) {
							if sl, found := c.lookup(l.Name); found {
								return fmt.Sprintf("(.append %d %s)", sl, c.expr(call.Args[1], ""))
							}
						}
					}
				}
				if st, ok := c.callStmt(call, x.Lhs, define); ok {
					return st
				}
			}
		}
		if len(x.Lhs) == len(x.Rhs) && len(x.Lhs) > 1 {
			// a, b = e1, e2: every right-hand side is evaluated before any assignment
			var parts []string
			var tmps []int
			var tys []string
			for i, r := range x.Rhs {
				t := c.typeOf(r)
				if !define {
					t = c.typeOf(x.Lhs[i])
				}
				v := c.expr(r, t)
				sl := c.tmp(t)
				tmps, tys = append(tmps, sl), append(tys, t)
				parts = append(parts, fmt.Sprintf("(.set %d %s)", sl, v))
			}
			for i, l := range x.Lhs {
				sl := tmps[i]
				parts = append(parts, c.assignTo(l, define, tys[i], func() string { return fmt.Sprintf("(.var %d)", sl) }))
			}
			return seqOf(parts)
		}
		if len(x.Lhs) == len(x.Rhs) && len(x.Lhs) == 1 {
			t := c.typeOf(x.Rhs[0])
			if !define {
				t = c.typeOf(x.Lhs[0])
			}
			return c.assignTo(x.Lhs[0], define, t, func() string { return c.expr(x.Rhs[0], t) })
		}
	case *ast.IfStmt:
		c.push()
		defer c.pop()
		var parts []string
		if x.Init != nil {
			parts = append(parts, c.stmt(x.Init))
		}
		cond := c.expr(x.Cond, "bool")
		thn := c.stmt(x.Body)
		els := ".skip"
		if x.Else != nil {
			els = c.stmt(x.Else)
		}
		parts = append(parts, "(.ite "+cond+"\n "+thn+"\n "+els+")")
		return seqOf(parts)
	case *ast.ForStmt:
		c.push()
		defer c.pop()
		var parts []string
		if x.Init != nil {
			parts = append(parts, c.stmt(x.Init))
		}
		cond := "(.bool true)"
		if x.Cond != nil {
			cond = c.expr(x.Cond, "bool")
		}
		post := ".skip"
		if x.Post != nil {
			post = c.stmt(x.Post)
		}
		body := c.stmt(x.Body)
		parts = append(parts, "(.while "+cond+" "+post+"\n "+body+")")
		return seqOf(parts)
	case *ast.SwitchStmt:
		// switch [init;] [tag] { case a, b: … default: … }  =  the tag evaluated once, then a chain of if / else if
		c.push()
		defer c.pop()
		var parts []string
		if x.Init != nil {
			parts = append(parts, c.stmt(x.Init))
		}
		tagSlot, tagTy := -1, ""
		if x.Tag != nil {
			tagTy = c.typeOf(x.Tag)
			if !isIntType(c, tagTy) && tagTy != "const" && tagTy != "bool" {
				break
			}
			v := c.expr(x.Tag, tagTy)
			tagSlot = c.tmp(tagTy)
			parts = append(parts, fmt.Sprintf("(.set %d %s)", tagSlot, v))
		}
		chain := ".skip"
		var clauses []*ast.CaseClause
		for _, cl := range x.Body.List {
			cc, ok := cl.(*ast.CaseClause)
			if !ok {
				c.fail(cl, "switch clause")
				return ".opaque"
			}
			if cc.List == nil {
				c.push()
				chain = c.stmts(cc.Body)
				c.pop()
			} else {
				clauses = append(clauses, cc)
			}
		}
		for i := len(clauses) - 1; i >= 0; i-- {
			cc := clauses[i]
			cond := ""
			for _, e := range cc.List {
				one := ""
				if tagSlot >= 0 && tagTy == "bool" {
					// case true / case false on a Boolean tag
					if isIdent(e, "true") {
						one = fmt.Sprintf("(.var %d)", tagSlot)
					} else if isIdent(e, "false") {
						one = fmt.Sprintf("(.not (.var %d))", tagSlot)
					} else {
						c.fail(e, "case of a Boolean switch")
					}
				} else if tagSlot >= 0 {
					one = fmt.Sprintf("(.cmp .eq (.var %d) %s)", tagSlot, c.expr(e, tagTy))
				} else {
					one = c.expr(e, "bool")
				}
				if cond == "" {
					cond = one
				} else {
					cond = "(.or " + cond + " " + one + ")"
				}
			}
			c.push()
			body := c.stmts(cc.Body)
			c.pop()
			chain = "(.ite " + cond + "\n " + body + "\n " + chain + ")"
		}
		parts = append(parts, chain)
		return seqOf(parts)
	case *ast.RangeStmt:
		if x.Tok != token.DEFINE || x.Value == nil || (x.Key != nil && !isIdent(x.Key, "_")) {
			break
		}
		vid, ok := x.Value.(*ast.Ident)
		if !ok {
			break
		}
		et := strings.TrimPrefix(c.typeOf(x.X), "[]")
		e := c.expr(x.X, "")
		c.push()
		defer c.pop()
		sl := c.declare(vid.Name, et)
		body := c.stmt(x.Body)
		return fmt.Sprintf("(.range %d %s\n %s)", sl, e, body)
	}
	c.fail(s, "statement")
	return ".opaque"
}

func isLit(e ast.Expr, v string) bool { l, ok := e.(*ast.BasicLit); return ok && l.Value == v }

// x := make(…, SIZE): the size is translated before x is declared
func (c *irCtx) stmtWithDst(lhs ast.Expr, define bool, ty string, mk func(slot int) string, size ast.Expr) string {
	id, ok := lhs.(*ast.Ident)
	if !ok || id.Name == "_" {
		c.fail(lhs, "assignment target")
		return ".opaque"
	}
	sz := c.expr(size, "int")
	var s int
	if define {
		if old, here := c.scopes[len(c.scopes)-1][id.Name]; here {
			s = old
		} else {
			s = c.declare(id.Name, ty)
		}
	} else {
		var found bool
		if s, found = c.lookup(id.Name); !found {
			c.fail(lhs, "unknown variable")
			return ".opaque"
		}
	}
	return fmt.Sprintf(mk(s), sz)
}

func (c *irCtx) stmts(l []ast.Stmt) string {
	var parts []string
	for _, s := range l {
		parts = append(parts, c.stmt(s))
	}
	return seqOf(parts)
}

func fieldTypes(fl *ast.FieldList) (names, types []string) {
	if fl == nil {
		return
	}
	for _, f := range fl.List {
		t := typeStr(f.Type)
		if ft, ok := f.Type.(*ast.FuncType); ok && (ft.Params == nil || len(ft.Params.List) == 0) && ft.Results != nil && len(ft.Results.List) == 1 {
			t = "func() " + typeStr(ft.Results.List[0].Type)
		}
		if len(f.Names) == 0 {
			names = append(names, "_")
			types = append(types, t)
		}
		for _, n := range f.Names {
			names = append(names, n.Name)
			types = append(types, t)
		}
	}
	return
}

// emitGoIR translates the codec package; returns the Lean source and a summary (functions, opaque statements)
func emitGoIR(root, ns string) (string, []string) {
	fns := map[string]*irFunc{}
	var order []string
	for _, af := range parseDir(root + "/codec") {
		for _, d := range af.Decls {
			fd, ok := d.(*ast.FuncDecl)
			if !ok || fd.Body == nil {
				continue
			}
			f := &irFunc{decl: fd, tpKind: map[string]string{}}
			if fd.Recv != nil {
				if fd.Name.Name != "Calc" || len(fd.Recv.List) != 1 {
					continue
				}
				rt := strings.TrimPrefix(typeStr(fd.Recv.List[0].Type), "*")
				f.name = rt + ".Calc"
				f.isCalc = true
			} else {
				f.name = fd.Name.Name
				switch f.name {
				case "init", "Registry", "Get", "Remove", "Clear":
					continue // the registry is modelled as lock programs (LockProg.lean)
				}
			}
			if fd.Type.TypeParams != nil {
				for _, tp := range fd.Type.TypeParams.List {
					k := "num"
					if strings.Contains(typeStr(tp.Type), "BinaryCodec") {
						k = "obj"
					}
					for _, n := range tp.Names {
						f.tparams = append(f.tparams, n.Name)
						f.tpKind[n.Name] = k
					}
				}
			}
			_, pts := fieldTypes(fd.Type.Params)
			if len(pts) == 0 || pts[0] != "*bytes.Buffer" {
				continue
			}
			f.params = pts[1:]
			_, f.results = fieldTypes(fd.Type.Results)
			fns[f.name] = f
			order = append(order, f.name)
		}
	}
	// fixed positions: the 34 primitives, then the four Calc bodies; anything else (helpers a rewrite introduced) after them
	var names []string
	seen := map[string]bool{}
	for _, n := range primNames {
		names = append(names, n)
		seen[n] = true
	}
	for _, n := range calcOrder {
		names = append(names, n+".Calc")
		seen[n+".Calc"] = true
	}
	sort.Strings(order)
	for _, n := range order {
		if !seen[n] {
			names = append(names, n)
		}
	}
	index := map[string]int{}
	for i, n := range names {
		index[n] = i
	}
	var out strings.Builder
	out.WriteString("-- generated by xlate (goir.go) from codec/binary_codec.go and codec/checksum.go; do not edit\nimport FinProto.GoIR\nnamespace FinProto." + ns + "\nopen FinProto.GoIR\n\n")
	var summary []string
	var defs []string
	for i, n := range names {
		f := fns[n]
		def := fmt.Sprintf("fn%d", i)
		defs = append(defs, def)
		if f == nil {
			fmt.Fprintf(&out, "/-- %s: not found -/\ndef %s : Func := { name := %q, nparams := 0, body := .opaque }\n\n", n, def, n)
			summary = append(summary, n+": missing")
			continue
		}
		c := &irCtx{fns: fns, index: index, fn: f, types: map[int]string{}}
		c.push()
		pn, pt := fieldTypes(f.decl.Type.Params)
		c.buf = pn[0]
		for j := 1; j < len(pn); j++ {
			c.declare(pn[j], pt[j])
		}
		// named results are locals initialised to their zero values
		var pre []string
		rn, rt := fieldTypes(f.decl.Type.Results)
		for j := range rn {
			if rn[j] != "_" {
				if z, ok := zeroOf(c, rt[j]); ok {
					pre = append(pre, fmt.Sprintf("(.set %d %s)", c.declare(rn[j], rt[j]), z))
				} else {
					c.fail(f.decl.Type, "named result")
				}
			}
		}
		body := seqOf(append(pre, c.stmts(f.decl.Body.List)))
		if len(c.bad) > 0 {
			summary = append(summary, fmt.Sprintf("%s: %d constructs not in the language (%s)", n, len(c.bad), c.bad[0]))
		}
		fmt.Fprintf(&out, "/-- %s -/\ndef %s : Func := { name := %q, nparams := %d, body :=\n %s }\n\n", n, def, n, len(f.params), body)
	}
	fmt.Fprintf(&out, "/-- every function of the codec package that takes the buffer, in the order of CodecProg.primNames, then the Calc bodies of the CRC16 / CRC32 / SSE_BIN / SZSE_BIN services, then any other -/\ndef codecProg : List Func := [%s]\n\nend FinProto.%s\n", strings.Join(defs, ", "), ns)
	return out.String(), summary
}
